---------------------------- MODULE SitePools_Trace ----------------------------
(* Trace validation of real MatrixParameters / NucleationSiteParameters objects against SitePools.tla (Mode = "fixed").
   One trace = one history of setVolume / initComposition / setBulkDensity / setGrainSize / setDislocationDensity calls and reads of
   the five pools; a read logs which parameter values the returned number corresponds to (found by comparing it with the pool formula
   for every candidate combination).  The acceptor is total: mismatches are collected as failed clauses. *)
EXTENDS SitePools, Json, IOUtils, TLCExt
Traces == JsonDeserialize(IOEnv.TRACES)
NT == Len(Traces)
VARIABLES tid, l, fails
tvars == <<vars, tid, l, fails>>
Tr == Traces[tid]
Ev == Tr[l]
ASSUME \A i \in 1..NT : TLCSet(i, [l |-> 0, fails |-> {}])
TInit == tid \in 1..NT /\ Init /\ grain = Traces[tid][1].grain /\ disl = Traces[tid][1].disl /\ l = 2 /\ fails = {}
Q(v) == IF Len(v) = 2 THEN <<v[1], v[2]>> ELSE IF Len(v) = 3 THEN <<v[1], v[2], v[3]>> ELSE <<v[1]>>
Act(e) == CASE e.op = "vm" -> SetVm(e.arg)
            [] e.op = "x0" -> SetX0(e.arg)
            [] e.op = "bulk" -> SetBulk(e.arg)
            [] e.op = "grain" -> SetGrain(e.arg)
            [] e.op = "disl" -> SetDisl(e.arg)
            [] e.op = "read" -> IF e.arg = "bulk" THEN ReadBulk ELSE Read(e.arg)
Mismatch(e) == IF e.op # "read" THEN {}
               ELSE (IF lastRead'.got # Q(e.got) THEN {"C14:pool-as-modelled(" \o e.arg \o ")"} ELSE {})
               \cup (IF Q(e.got) # lastRead'.want THEN {"C14:pool-of-current-parameters(" \o e.arg \o ")"} ELSE {})
TStep == /\ l <= Len(Tr) /\ Ev.e = "op" /\ Act(Ev) /\ UNCHANGED nops
         /\ fails' = fails \cup {<<c, l, Ev.op>> : c \in {c \in Mismatch(Ev) : \A x \in fails : x[1] # c}}
         /\ l' = l + 1 /\ tid' = tid
TExc == /\ l <= Len(Tr) /\ Ev.e = "exception" /\ fails' = fails \cup {<<"exception: " \o Ev.msg, l, "">>} /\ l' = l + 1 /\ UNCHANGED <<vars, tid>>
TNext == TStep \/ TExc
TSpec == TInit /\ [][TNext]_tvars
Reached == TLCSet(tid, IF TLCGet(tid).l > l THEN TLCGet(tid) ELSE [l |-> l, fails |-> fails])
Report == JsonSerialize(IOEnv.OUTF, [i \in 1..NT |-> TLCGet(i)])
=============================================================================
