------------------------------- MODULE PBM_MC -------------------------------
(* TLC exploration of all histories of grid operations up to a bounded length. *)
EXTENDS PBM, TLC
CONSTANTS MaxLen, Configs, AllowSpikeLoss
VARIABLES s, last, n, ugly, prevUgly
vars == <<s, last, n, ugly, prevUgly>>

(* <<cmin, cmax, bins, minBins, maxBins, adaptive>> *)
(* grids start at 0 (kawin forces max >= 10*min otherwise) and use small integers: exact re-meshing involves
   cubes of class centres and overflows TLC's 32-bit integers on anything larger; for the same reason a
   history may re-mesh a distribution only once before it is replaced (flag "ugly") *)
ConfigsFull == { <<RZero, RI(8), 4, 2, 4, TRUE>>, <<RZero, RI(8), 4, 2, 6, TRUE>>, <<RZero, RI(8), 4, 2, 4, FALSE>>,
                 <<RZero, RI(6), 3, 2, 4, TRUE>>, <<RZero, RI(4), 4, 2, 6, TRUE>> }
ConfigsQuick == { <<RZero, RI(8), 4, 2, 4, TRUE>>, <<RZero, RI(6), 3, 2, 4, TRUE>>, <<RZero, RI(8), 4, 2, 4, FALSE>> }

Ops(st) ==
       { [op |-> "reset", rb |-> x] : x \in BOOLEAN }
    \cup { [op |-> "add", k |-> x] : x \in {1, 2} }
    \cup { [op |-> "change", a |-> ab[1], b |-> ab[2], n |-> x, reset |-> FALSE] :
              ab \in { <<RZero, RI(6)>>, <<RZero, RI(12)>> }, x \in {0, 2, 3} }
    \cup { [op |-> "change", a |-> RZero, b |-> RI(20), n |-> 4, reset |-> TRUE] }
    \cup { [op |-> "adjust", chk |-> x] : x \in BOOLEAN }
    \cup { [op |-> "update", v |-> Pattern(st.bins, p)] : p \in 0..6 }
    \cup { [op |-> "backup"] }
    \cup { [op |-> "revert"] }
    \cup { [op |-> "load", data |-> << RZero, RI(1), R(3, 2), RI(4), RI(4), RI(6), RI(9), RI(100) >>] }
    \cup { [op |-> "loadfn", c |-> RI(2)] }

(* exact third moments of distributions with large numerators/denominators overflow TLC's 32-bit integers: such
   results are not judged here (the evaluator part of the check covers real re-meshes in floating point) *)
SmallPsd(st) == \A i \in 1..Len(st.psd) : st.psd[i][1] < 3000 /\ st.psd[i][2] < 3000
Remeshes(op) == (op.op = "change" /\ ~op.reset) \/ op.op = "adjust"
Init == /\ \E c \in Configs : s = New(c[1], c[2], c[3], c[4], c[5], c[6])
        /\ last = [op |-> "new"] /\ n = 0 /\ ugly = FALSE /\ prevUgly = FALSE
Next == /\ n < MaxLen /\ s.err = ""
        /\ \E op \in Ops(s) :
              /\ ~(ugly /\ Remeshes(op))
              \* exact re-meshing of many classes, or from a grid with awkward bounds, overflows TLC's 32-bit integers
              /\ (Remeshes(op) => s.bins <= 6 /\ SmallPsd(s) /\ \A j \in 1..Len(s.bounds) : s.bounds[j][2] <= 2)
              /\ s' = Do(s, op) /\ last' = op
              /\ ugly' = CASE Remeshes(op) -> (s'.bounds # s.bounds /\ op.op = "change") \/ (op.op = "adjust" /\ s'.psd # s.psd \o Seq0(s'.bins - s.bins))
                            [] op.op \in {"update", "load", "loadfn", "reset"} \/ (op.op = "change" /\ op.reset) -> FALSE
                            [] op.op = "settime" -> TRUE
                            [] op.op = "revert" -> prevUgly
                            [] OTHER -> ugly
              /\ prevUgly' = IF op.op = "backup" THEN ugly ELSE prevUgly
        /\ n' = n + 1
Spec == Init /\ [][Next]_vars

InvGridConsistent == s.err = "" => GridConsistent(s)
InvRecording == RecordingSound(s)
PropSetToLast == [][last'.op = "settime" /\ last'.t = RI(100) => SetToLastRestores(s, s')]_vars
NoError == s.err = ""
PropExtend == [][last'.op = "add" => ExtendKeepsPrefix(s, s')]_vars
PropRemesh == [][((last'.op = "change" /\ ~last'.reset) \/ last'.op = "adjust") /\ SmallPsd(s) /\ SmallPsd(s') =>
                    s'.err # "" \/ RemeshKeepsThirdMoment(s, s') \/ (AllowSpikeLoss /\ RemeshLosesSpike(s, s'))]_vars
PropAdaptive == [][last'.op = "adjust" /\ s'.err = "" => AdaptiveBounded(s, s')]_vars
PropReset == [][last'.op = "reset" /\ last'.rb => ResetRestores(s, s')]_vars
(* vacuity companions: expected to be violated *)
NeverCoarsens == [][~(last'.op = "adjust" /\ s'.bins < s.bins)]_vars
NeverRefines == [][~(last'.op = "adjust" /\ s'.bins > s.bins /\ s'.max # s.max /\ RLt(s'.max, s.max))]_vars
NeverExtends == [][~(last'.op = "adjust" /\ s'.bins > s.bins)]_vars
=============================================================================
