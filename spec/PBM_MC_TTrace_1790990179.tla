---- MODULE PBM_MC_TTrace_1790990179 ----
EXTENDS PBM_MC, Sequences, TLCExt, Toolbox, Naturals, TLC

_expression ==
    LET PBM_MC_TEExpression == INSTANCE PBM_MC_TEExpression
    IN PBM_MC_TEExpression!expression
----

_trace ==
    LET PBM_MC_TETrace == INSTANCE PBM_MC_TETrace
    IN PBM_MC_TETrace!trace
----

_inv ==
    ~(
        TLCGet("level") = Len(_TETrace)
        /\
        s = ([bins |-> 3, backed |-> FALSE, err |-> "", max |-> <<10, 1>>, psd |-> <<<<0, 1>>, <<0, 1>>, <<7, 1>>>>, minBins |-> 2, maxBins |-> 6, adaptive |-> TRUE, min |-> <<1, 1>>, omin |-> <<1, 1>>, omax |-> <<10, 1>>, obins |-> 3, bounds |-> <<<<1, 1>>, <<4, 1>>, <<7, 1>>, <<10, 1>>>>, prevPsd |-> <<<<0, 1>>, <<0, 1>>, <<0, 1>>>>, prevBounds |-> <<<<0, 1>>, <<0, 1>>, <<0, 1>>, <<0, 1>>>>])
        /\
        last = ([op |-> "update", v |-> <<<<0, 1>>, <<0, 1>>, <<7, 1>>>>])
        /\
        n = (1)
    )
----

_init ==
    /\ n = _TETrace[1].n
    /\ s = _TETrace[1].s
    /\ last = _TETrace[1].last
----

_next ==
    /\ \E i,j \in DOMAIN _TETrace:
        /\ \/ /\ j = i + 1
              /\ i = TLCGet("level")
        /\ n  = _TETrace[i].n
        /\ n' = _TETrace[j].n
        /\ s  = _TETrace[i].s
        /\ s' = _TETrace[j].s
        /\ last  = _TETrace[i].last
        /\ last' = _TETrace[j].last

\* Uncomment the ASSUME below to write the states of the error trace
\* to the given file in Json format. Note that you can pass any tuple
\* to `JsonSerialize`. For example, a sub-sequence of _TETrace.
    \* ASSUME
    \*     LET J == INSTANCE Json
    \*         IN J!JsonSerialize("PBM_MC_TTrace_1790990179.json", _TETrace)

=============================================================================

 Note that you can extract this module `PBM_MC_TEExpression`
  to a dedicated file to reuse `expression` (the module in the 
  dedicated `PBM_MC_TEExpression.tla` file takes precedence 
  over the module `PBM_MC_TEExpression` below).

---- MODULE PBM_MC_TEExpression ----
EXTENDS PBM_MC, Sequences, TLCExt, Toolbox, Naturals, TLC

expression == 
    [
        \* To hide variables of the `PBM_MC` spec from the error trace,
        \* remove the variables below.  The trace will be written in the order
        \* of the fields of this record.
        n |-> n
        ,s |-> s
        ,last |-> last
        
        \* Put additional constant-, state-, and action-level expressions here:
        \* ,_stateNumber |-> _TEPosition
        \* ,_nUnchanged |-> n = n'
        
        \* Format the `n` variable as Json value.
        \* ,_nJson |->
        \*     LET J == INSTANCE Json
        \*     IN J!ToJson(n)
        
        \* Lastly, you may build expressions over arbitrary sets of states by
        \* leveraging the _TETrace operator.  For example, this is how to
        \* count the number of times a spec variable changed up to the current
        \* state in the trace.
        \* ,_nModCount |->
        \*     LET F[s \in DOMAIN _TETrace] ==
        \*         IF s = 1 THEN 0
        \*         ELSE IF _TETrace[s].n # _TETrace[s-1].n
        \*             THEN 1 + F[s-1] ELSE F[s-1]
        \*     IN F[_TEPosition - 1]
    ]

=============================================================================



Parsing and semantic processing can take forever if the trace below is long.
 In this case, it is advised to uncomment the module below to deserialize the
 trace from a generated binary file.

\*
\*---- MODULE PBM_MC_TETrace ----
\*EXTENDS PBM_MC, IOUtils, TLC
\*
\*trace == IODeserialize("PBM_MC_TTrace_1790990179.bin", TRUE)
\*
\*=============================================================================
\*

---- MODULE PBM_MC_TETrace ----
EXTENDS PBM_MC, TLC

trace == 
    <<
    ([s |-> [bins |-> 3, backed |-> FALSE, err |-> "", max |-> <<10, 1>>, psd |-> <<<<0, 1>>, <<0, 1>>, <<0, 1>>>>, minBins |-> 2, maxBins |-> 6, adaptive |-> TRUE, min |-> <<1, 1>>, omin |-> <<1, 1>>, omax |-> <<10, 1>>, obins |-> 3, bounds |-> <<<<1, 1>>, <<4, 1>>, <<7, 1>>, <<10, 1>>>>, prevPsd |-> <<<<0, 1>>, <<0, 1>>, <<0, 1>>>>, prevBounds |-> <<<<0, 1>>, <<0, 1>>, <<0, 1>>, <<0, 1>>>>],last |-> [op |-> "new"],n |-> 0]),
    ([s |-> [bins |-> 3, backed |-> FALSE, err |-> "", max |-> <<10, 1>>, psd |-> <<<<0, 1>>, <<0, 1>>, <<7, 1>>>>, minBins |-> 2, maxBins |-> 6, adaptive |-> TRUE, min |-> <<1, 1>>, omin |-> <<1, 1>>, omax |-> <<10, 1>>, obins |-> 3, bounds |-> <<<<1, 1>>, <<4, 1>>, <<7, 1>>, <<10, 1>>>>, prevPsd |-> <<<<0, 1>>, <<0, 1>>, <<0, 1>>>>, prevBounds |-> <<<<0, 1>>, <<0, 1>>, <<0, 1>>, <<0, 1>>>>],last |-> [op |-> "update", v |-> <<<<0, 1>>, <<0, 1>>, <<7, 1>>>>],n |-> 1])
    >>
----


=============================================================================

---- CONFIG PBM_MC_TTrace_1790990179 ----
CONSTANTS
    MaxLen = 3
    Configs <- ConfigsQuick
    AllowSpikeLoss = TRUE

INVARIANT
    _inv

CHECK_DEADLOCK
    \* CHECK_DEADLOCK off because of PROPERTY or INVARIANT above.
    FALSE

INIT
    _init

NEXT
    _next

CONSTANT
    _TETrace <- _trace

ALIAS
    _expression
=============================================================================
\* Generated on Sat Oct 03 01:16:25 UTC 2026