------------------------------ MODULE ModelConfig ------------------------------
(***************************************************************************)
(* The configuration of a PrecipitateModel as ONE state machine             *)
(* (kawin/precipitation/KWNBase.py setters, setup(), reset();               *)
(*  PrecipitationParameters.py MatrixParameters / PrecipitateParameters     *)
(*  .validate; parameters/Nucleation.py; parameters/ShapeFactors.py).       *)
(* It composes what SitePools, NucParams and Shape model object by object:  *)
(* the user supplies inputs through setters in ANY order, possibly after a  *)
(* first setup(), and what the model then works with -- the pool of sites   *)
(* of the chosen site type, the geometric factors of the nucleus, the       *)
(* Gibbs-Thomson energy of a particle, the starting composition -- is        *)
(* DERIVED data.  Inputs are identifiers; a derived datum is the tuple of   *)
(* inputs it was computed from ("stamp").  The model-level rules:           *)
(*   - a datum depends on its dependency set only (Deps);                   *)
(*   - after reset() + setup() every datum is that of the CURRENT inputs;   *)
(*   - non-spherical shapes are admitted only with bulk / dislocation        *)
(*     sites (validate() refuses the other combinations: such setter calls  *)
(*     are not enabled here and are not made by the driver).                *)
(* One or two precipitate phases (inp.np): the per-phase setters address a   *)
(* phase by NAME (no name = the first phase, as documented), and what is      *)
(* derived for one phase depends on the global inputs and on that phase's own *)
(* inputs only (PhaseIsolation).                                              *)
(* Mode = "stale-gb": setup() does not hand the grain boundary energy over   *)
(* again (the defect repaired in a638ab0's neighbourhood, kept as negative   *)
(* control).                                                                *)
(***************************************************************************)
EXTENDS Integers, Sequences, FiniteSets, TLC
CONSTANTS VmAs, VmBs, Gammas, Sites, Gbes, Grains, Disls, X0s, Bulks, Shapes, NPs, MaxOps, Mode,
          Starts      \* the configurations histories start from (a set of input records; {} = every admissible record)
VARIABLES inp,      \* record of the inputs supplied last (fields of the second phase carry the suffix 2; inp.np = number of phases)
          der,      \* record of derived data (stamps) the model holds; refreshed by Setup
          fresh,    \* TRUE iff no setter was called since the last Setup
          nops
vars == <<inp, der, fresh, nops>>

GBSites == {"grain boundaries", "grain edges", "grain corners"}
Admissible(site, shape) == shape = "sphere" \/ site \notin GBSites
(* the inputs of phase k *)
Ph(i, k) == IF k = 1 THEN [vmB |-> i.vmB, gamma |-> i.gamma, site |-> i.site, shape |-> i.shape]
                     ELSE [vmB |-> i.vmB2, gamma |-> i.gamma2, site |-> i.site2, shape |-> i.shape2]
AllAdmissible(i) == Admissible(i.site, i.shape) /\ (i.np = 2 => Admissible(i.site2, i.shape2))

(* dependency sets: which inputs a derived datum is a function of *)
PoolOf(i, k) == LET s == Ph(i, k).site IN
                CASE s = "bulk" -> IF i.bulk = "auto" THEN <<"bulk", "auto", i.x0, i.vmA>> ELSE <<"bulk", "user", i.bulk>>
                  [] s = "dislocations" -> <<"disl", i.vmA, i.disl>>
                  [] s = "grain boundaries" -> <<"gbarea", i.vmA, i.grain>>
                  [] s = "grain edges" -> <<"gbedge", i.vmA, i.grain>>
                  [] s = "grain corners" -> <<"gbcorner", i.grain>>
FactorsOf(i, k, gbe) == IF Ph(i, k).site \in GBSites THEN <<Ph(i, k).site, Ph(i, k).gamma, gbe>> ELSE <<"spherical nucleus">>
GibbsOf(i, k) == <<Ph(i, k).gamma, Ph(i, k).vmB, Ph(i, k).shape>>
Absent == <<"absent">>
Compute(i, gbe) == [pool |-> PoolOf(i, 1), factors |-> FactorsOf(i, 1, gbe), gibbs |-> GibbsOf(i, 1), x |-> <<i.x0>>, gbe |-> gbe,
                    pool2 |-> IF i.np = 2 THEN PoolOf(i, 2) ELSE Absent, factors2 |-> IF i.np = 2 THEN FactorsOf(i, 2, gbe) ELSE Absent,
                    gibbs2 |-> IF i.np = 2 THEN GibbsOf(i, 2) ELSE Absent]

Init == /\ inp \in [vmA : VmAs, vmB : VmBs, gamma : Gammas, site : Sites, gbe : Gbes, grain : Grains, disl : Disls, x0 : X0s, bulk : Bulks, shape : Shapes,
                    vmB2 : VmBs, gamma2 : Gammas, site2 : Sites, shape2 : Shapes, np : NPs]
        /\ (Starts # {} => inp \in Starts)
        /\ AllAdmissible(inp)
        /\ (inp.np = 1 => inp.vmB2 = inp.vmB /\ inp.gamma2 = inp.gamma /\ inp.site2 = "bulk" /\ inp.shape2 = "sphere")     \* (unused fields: one representative)
        /\ der = Compute(inp, inp.gbe) /\ fresh = TRUE /\ nops = 0

PhaseTwoFields == {"vmB2", "gamma2", "site2", "shape2"}
Set(field, v) == /\ (field \in PhaseTwoFields => inp.np = 2)
                 /\ inp' = [inp EXCEPT ![field] = v]
                 /\ AllAdmissible(inp')
                 /\ fresh' = FALSE /\ UNCHANGED der
(* (a user-defined bulk density cannot be withdrawn: setNucleationDensity(bulkN0 = None) keeps it, see SitePools UserBulkKept) *)
(* reset() + setup(): every derived datum is recomputed from the inputs in force *)
Setup == /\ der' = Compute(inp, IF Mode = "stale-gb" THEN der.gbe ELSE inp.gbe)
         /\ fresh' = TRUE /\ UNCHANGED inp
Next == /\ nops < MaxOps /\ nops' = nops + 1
        /\ \/ (\E v \in VmAs : Set("vmA", v)) \/ (\E v \in VmBs : Set("vmB", v) \/ Set("vmB2", v))
           \/ (\E v \in Gammas : Set("gamma", v) \/ Set("gamma2", v)) \/ (\E v \in Sites : Set("site", v) \/ Set("site2", v))
           \/ (\E v \in Gbes : Set("gbe", v)) \/ (\E v \in Grains : Set("grain", v))
           \/ (\E v \in Disls : Set("disl", v)) \/ (\E v \in X0s : Set("x0", v))
           \/ (\E v \in Bulks \ {"auto"} : Set("bulk", v)) \/ (\E v \in Shapes : Set("shape", v) \/ Set("shape2", v))
           \/ Setup
Spec == Init /\ [][Next]_vars

(* after a setup the model works with the data of the inputs in force, whatever the order and number of setter calls before *)
SetupIsCurrent == fresh => der = Compute(inp, inp.gbe)
(* the configuration the model holds is always one validate() admits *)
AlwaysAdmissible == AllAdmissible(inp)
(* a setter outside the dependency set of a datum does not change what the next setup derives for it *)
NonInterference == [][\A f \in {"vmB", "gamma", "gbe", "shape"} :
                        (\E v \in VmBs \cup Gammas \cup Gbes \cup Shapes : inp' = [inp EXCEPT ![f] = v]) => PoolOf(inp', 1) = PoolOf(inp, 1)]_vars
(* what is derived for one phase does not depend on the other phase's inputs *)
PhaseIsolation == [][\A f \in PhaseTwoFields :
                        (\E v \in VmBs \cup Gammas \cup Sites \cup Shapes : inp' = [inp EXCEPT ![f] = v])
                           => PoolOf(inp', 1) = PoolOf(inp, 1) /\ GibbsOf(inp', 1) = GibbsOf(inp, 1) /\ FactorsOf(inp', 1, inp.gbe) = FactorsOf(inp, 1, inp.gbe)]_vars
=============================================================================
