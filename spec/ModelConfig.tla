------------------------------ MODULE ModelConfig ------------------------------
(***************************************************************************)
(* The configuration of a PrecipitateModel as ONE state machine             *)
(* (kawin/precipitation/KWNBase.py setters, setup(), reset();               *)
(*  PrecipitationParameters.py MatrixParameters / PrecipitateParameters     *)
(*  .validate; parameters/Nucleation.py; parameters/ShapeFactors.py).       *)
(* It composes what SitePools, NucParams and Shape model object by object:  *)
(* the user supplies inputs through setters in ANY order, possibly after a  *)
(* first setup(), and what the model then works with -- the pool of sites   *)
(* of the chosen site type, the geometric factors of the nucleus, the       *)
(* Gibbs-Thomson energy of a particle, the starting composition -- is        *)
(* DERIVED data.  Inputs are identifiers; a derived datum is the tuple of   *)
(* inputs it was computed from ("stamp").  The model-level rules:           *)
(*   - a datum depends on its dependency set only (Deps);                   *)
(*   - after reset() + setup() every datum is that of the CURRENT inputs;   *)
(*   - non-spherical shapes are admitted only with bulk / dislocation        *)
(*     sites (validate() refuses the other combinations: such setter calls  *)
(*     are not enabled here and are not made by the driver).                *)
(* Mode = "stale-gb": setup() does not hand the grain boundary energy over   *)
(* again (the defect repaired in a638ab0's neighbourhood, kept as negative   *)
(* control).                                                                *)
(***************************************************************************)
EXTENDS Integers, Sequences, FiniteSets, TLC
CONSTANTS VmAs, VmBs, Gammas, Sites, Gbes, Grains, Disls, X0s, Bulks, Shapes, MaxOps, Mode
VARIABLES inp,      \* record of the inputs supplied last
          der,      \* record of derived data (stamps) the model holds; refreshed by Setup
          fresh,    \* TRUE iff no setter was called since the last Setup
          nops
vars == <<inp, der, fresh, nops>>

GBSites == {"grain boundaries", "grain edges", "grain corners"}
Admissible(site, shape) == shape = "sphere" \/ site \notin GBSites

(* dependency sets: which inputs a derived datum is a function of *)
PoolOf(i) == CASE i.site = "bulk" -> IF i.bulk = "auto" THEN <<"bulk", "auto", i.x0, i.vmA>> ELSE <<"bulk", "user", i.bulk>>
               [] i.site = "dislocations" -> <<"disl", i.vmA, i.disl>>
               [] i.site = "grain boundaries" -> <<"gbarea", i.vmA, i.grain>>
               [] i.site = "grain edges" -> <<"gbedge", i.vmA, i.grain>>
               [] i.site = "grain corners" -> <<"gbcorner", i.grain>>
FactorsOf(i, gbe) == IF i.site \in GBSites THEN <<i.site, i.gamma, gbe>> ELSE <<"spherical nucleus">>
GibbsOf(i) == <<i.gamma, i.vmB, i.shape>>
Compute(i, gbe) == [pool |-> PoolOf(i), factors |-> FactorsOf(i, gbe), gibbs |-> GibbsOf(i), x |-> <<i.x0>>, gbe |-> gbe]

Init == /\ inp \in [vmA : VmAs, vmB : VmBs, gamma : Gammas, site : Sites, gbe : Gbes, grain : Grains, disl : Disls, x0 : X0s, bulk : Bulks, shape : Shapes]
        /\ Admissible(inp.site, inp.shape)
        /\ der = Compute(inp, inp.gbe) /\ fresh = TRUE /\ nops = 0

Set(field, v) == /\ inp' = [inp EXCEPT ![field] = v]
                 /\ Admissible(inp'.site, inp'.shape)
                 /\ fresh' = FALSE /\ UNCHANGED der
(* (a user-defined bulk density cannot be withdrawn: setNucleationDensity(bulkN0 = None) keeps it, see SitePools UserBulkKept) *)
(* reset() + setup(): every derived datum is recomputed from the inputs in force *)
Setup == /\ der' = Compute(inp, IF Mode = "stale-gb" THEN der.gbe ELSE inp.gbe)
         /\ fresh' = TRUE /\ UNCHANGED inp
Next == /\ nops < MaxOps /\ nops' = nops + 1
        /\ \/ (\E v \in VmAs : Set("vmA", v)) \/ (\E v \in VmBs : Set("vmB", v))
           \/ (\E v \in Gammas : Set("gamma", v)) \/ (\E v \in Sites : Set("site", v))
           \/ (\E v \in Gbes : Set("gbe", v)) \/ (\E v \in Grains : Set("grain", v))
           \/ (\E v \in Disls : Set("disl", v)) \/ (\E v \in X0s : Set("x0", v))
           \/ (\E v \in Bulks \ {"auto"} : Set("bulk", v)) \/ (\E v \in Shapes : Set("shape", v))
           \/ Setup
Spec == Init /\ [][Next]_vars

(* after a setup the model works with the data of the inputs in force, whatever the order and number of setter calls before *)
SetupIsCurrent == fresh => der = Compute(inp, inp.gbe)
(* the configuration the model holds is always one validate() admits *)
AlwaysAdmissible == Admissible(inp.site, inp.shape)
(* a setter outside the dependency set of a datum does not change what the next setup derives for it *)
NonInterference == [][\A f \in {"vmB", "gamma", "gbe", "shape"} :
                        (\E v \in VmBs \cup Gammas \cup Gbes \cup Shapes : inp' = [inp EXCEPT ![f] = v]) => PoolOf(inp') = PoolOf(inp)]_vars
=============================================================================
