------------------------------ MODULE Surrogate ------------------------------
(***************************************************************************)
(* kawin/thermo/Surrogate.py: which quantity is answered by a trained model *)
(* and which is delegated to the underlying thermodynamics.  A query of     *)
(* quantity q for phase ph is answered by the surrogate iff the model that  *)
(* serves q has been trained for ph; otherwise it must be delegated to the  *)
(* backend method with the SAME NAME and the same arguments.                *)
(***************************************************************************)
EXTENDS Integers, Sequences, FiniteSets, TLC
CONSTANTS Phases, MaxOps

(* query method -> the trained model that serves it *)
Queries == {"getDrivingForce", "getInterdiffusivity", "getTracerDiffusivity", "getInterfacialComposition"}
ModelOf(q) == CASE q = "getDrivingForce" -> "drivingForce"
                [] q \in {"getInterdiffusivity", "getTracerDiffusivity"} -> "diffusivity"
                [] q = "getInterfacialComposition" -> "interfacialComposition"
Models == {"drivingForce", "diffusivity", "interfacialComposition"}

VARIABLES trained, last, nops
vars == <<trained, last, nops>>
Init == trained = {} /\ last = [kind |-> "none", q |-> "", ph |-> "", backend |-> "none"] /\ nops = 0
Train(mo, ph) == trained' = trained \cup {<<mo, ph>>} /\ last' = [kind |-> "train", q |-> "", ph |-> ph, backend |-> "none"]
(* the answer: which backend method (if any) a query reaches *)
Answer(q, ph, tr) == IF <<ModelOf(q), ph>> \in tr THEN [kind |-> "surrogate", q |-> q, ph |-> ph, backend |-> "none"]
                     ELSE [kind |-> "delegated", q |-> q, ph |-> ph, backend |-> q]
Query(q, ph) == last' = Answer(q, ph, trained) /\ UNCHANGED trained
SaveLoad == UNCHANGED trained /\ last' = [kind |-> "reload", q |-> "", ph |-> "", backend |-> "none"]
Next == /\ nops < MaxOps /\ nops' = nops + 1
        /\ \/ \E mo \in Models, ph \in Phases : Train(mo, ph)
           \/ \E q \in Queries, ph \in Phases : Query(q, ph)
           \/ SaveLoad
Spec == Init /\ [][Next]_vars
(* C20: an untrained quantity is answered by the same-named backend method; a trained one never touches the backend *)
DelegatesByName == last.kind = "delegated" => last.backend = last.q
TrainedIsLocal == last.kind = "surrogate" => <<ModelOf(last.q), last.ph>> \in trained /\ last.backend = "none"
TrainingMonotone == [][trained \subseteq trained']_vars
=============================================================================
