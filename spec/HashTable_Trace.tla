--------------------------- MODULE HashTable_Trace ---------------------------
EXTENDS HashTable, Json, IOUtils, TLCExt
Traces == JsonDeserialize(IOEnv.TRACES)
NT == Len(Traces)
VARIABLES tid, l
tvars == <<vars, tid, l>>
Tr == Traces[tid]
Ev == Tr[l]
IsEv(name) == l <= Len(Tr) /\ Ev.e = name /\ l' = l + 1 /\ tid' = tid /\ nops' = nops
ASSUME \A i \in 1..NT : TLCSet(i, 0)
TInit == tid \in 1..NT /\ l = 2 /\ Init
TNext == \/ IsEv("enable") /\ Enable(Ev.b)
         \/ IsEv("sens") /\ SetSens(Ev.s)
         \/ IsEv("clear") /\ Clear
         \/ IsEv("add") /\ Add(Ev.p) /\ Ev.size = Cardinality(table')
         \/ IsEv("get") /\ Retrieve(Ev.p) /\ Ev.hit = result'.hit /\ (Ev.hit => Ev.v = result'.v)
TSpec == TInit /\ [][TNext]_tvars
Reached == TLCSet(tid, IF TLCGet(tid) > l THEN TLCGet(tid) ELSE l)
Report == JsonSerialize(IOEnv.OUTF, [i \in 1..NT |-> TLCGet(i)])
=============================================================================
