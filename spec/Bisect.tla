-------------------------------- MODULE Bisect --------------------------------
(* kawin/precipitation/parameters/ShapeFactors.py, ShapeFactor._findRcrit: the bisection for the critical radius of a particle
   whose aspect ratio depends on its size, transcribed over exact rationals for an affine factor function factor(R) = a + b R.
   C15 (last clause): it returns a root of R = Rs * factor(R) to its tolerance whenever one is bracketed. *)
EXTENDS Rat
(* objective: F(R) = R / (Rs * factor(R)) - 1 with factor(R) = a + b R *)
F(x, Rs, a, b) == RSub(RDiv(x, RMul(Rs, RAdd(a, RMul(b, x)))), ROne)
RECURSIVE Bis(_, _, _, _, _, _, _, _)
(* state of the loop: (minR, maxR, fMin, midR, fMid, n); as built the test is fMin * fMid >= 0 and the loop gives up after 100 halvings *)
Bis(mn, mx, fmn, n, Rs, a, b, tol) ==
    LET mid == RDiv(RAdd(mn, mx), RI(2))
        fmid == F(mid, Rs, a, b)
    IN  IF ~RLt(tol, RAbs(fmid)) THEN [r |-> mid, n |-> n, gaveup |-> FALSE]
        ELSE IF n = 100 THEN [r |-> Rs, n |-> n, gaveup |-> TRUE]
        ELSE IF RSign(fmn) * RSign(fmid) >= 0 THEN Bis(mid, mx, fmid, n + 1, Rs, a, b, tol)
        ELSE Bis(mn, mid, fmn, n + 1, Rs, a, b, tol)
FindRcrit(Rs, Rmax, a, b, tol) == Bis(Rs, Rmax, F(Rs, Rs, a, b), 0, Rs, a, b, tol)
Bracketed(Rs, Rmax, a, b) == RSign(F(Rs, Rs, a, b)) * RSign(F(Rmax, Rs, a, b)) < 0
RootFound(Rs, Rmax, a, b, tol) ==
    Bracketed(Rs, Rmax, a, b) =>
        LET res == FindRcrit(Rs, Rmax, a, b, tol)
        IN  /\ ~res.gaveup /\ ~RLt(tol, RAbs(F(res.r, Rs, a, b)))
            /\ RLe(Rs, res.r) /\ RLe(res.r, Rmax)
=============================================================================
