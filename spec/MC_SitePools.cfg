SPECIFICATION Spec
CONSTANTS
  Vms = {1, 2}
  X0s = {1, 2}
  Grains = {1, 2}
  Disls = {1, 2}
  Bulks = {7}
  MaxOps = 5
  Mode = "fixed"
INVARIANT ReadIsCurrent
INVARIANT CacheNeverStale
PROPERTY UserBulkKept
