------------------------------- MODULE GrainLife -------------------------------
(***************************************************************************)
(* Life cycle of a GrainGrowthModel (kawin/precipitation/coupling/          *)
(* GrainGrowth.py): a grain size distribution is loaded (from data or from  *)
(* a density function), the model is solved over time spans under a Zener   *)
(* drag that a host model sets before every span, reset() goes back to the  *)
(* loaded distribution, and a new distribution can be loaded at any time.   *)
(* Extension of C18: the grain-growth clock is the sum of the spans solved  *)
(* since the last reset, the histories stay aligned, the distribution the   *)
(* model holds is the loaded one evolved by exactly the spans (and drags)   *)
(* solved since it was loaded or reset -- nothing of an earlier run         *)
(* survives a reset or a load.                                              *)
(* The distribution is a stamp: <<loaded id, sequence of <<span, drag>>>>.  *)
(* As built (and documented): loading a distribution does not touch the     *)
(* clock or the recorded times; reset() does.                               *)
(* Mode = "reset-keeps-drag" : reset() forgets to clear the drag level      *)
(* (negative control).                                                      *)
(***************************************************************************)
EXTENDS Integers, Sequences, FiniteSets, TLC
CONSTANTS Dists, Spans, Drags, MaxOps, Mode
VARIABLES loaded,    \* id of the distribution loaded last ("none" before any load: the empty default distribution cannot be solved)
          hist,      \* <<span, drag>> of every solve since the last load / reset
          clock,     \* model time
          rows,      \* number of solve calls recorded since the last reset (each adds at least one row)
          drag,      \* drag level in force (set by the host before a span)
          nops
vars == <<loaded, hist, clock, rows, drag, nops>>
Sum(s) == IF s = <<>> THEN 0 ELSE LET RECURSIVE F(_) F(k) == IF k = 0 THEN 0 ELSE s[k][1] + F(k - 1) IN F(Len(s))
Init == loaded = "none" /\ hist = <<>> /\ clock = 0 /\ rows = 0 /\ drag = 0 /\ nops = 0
Load(d) == loaded' = d /\ hist' = <<>> /\ UNCHANGED <<clock, rows, drag>>
SetDrag(z) == drag' = z /\ UNCHANGED <<loaded, hist, clock, rows>>
Solve(s) == /\ loaded # "none"
            /\ hist' = Append(hist, <<s, drag>>) /\ clock' = clock + s /\ rows' = rows + 1 /\ UNCHANGED <<loaded, drag>>
Reset == /\ hist' = <<>> /\ clock' = 0 /\ rows' = 0 /\ drag' = (IF Mode = "reset-keeps-drag" THEN drag ELSE 0) /\ UNCHANGED loaded
Next == /\ nops < MaxOps /\ nops' = nops + 1
        /\ \/ (\E d \in Dists : Load(d)) \/ (\E z \in Drags : SetDrag(z)) \/ (\E s \in Spans : Solve(s)) \/ Reset
Spec == Init /\ [][Next]_vars
(* the clock is the sum of the spans solved since the last reset -- a load in between does not restart it *)
ClockIsSumSinceReset == [][(\E s \in Spans : clock' = clock + s) \/ clock' = clock \/ (clock' = 0 /\ rows' = 0)]_vars
(* after a reset nothing of the run before survives: no history, no drag *)
ResetForgets == [][(rows' = 0 /\ rows > 0) => hist' = <<>> /\ drag' = 0 /\ clock' = 0]_vars
(* without a drag in force the distribution only depends on the loaded distribution and the spans *)
TypeOK == loaded \in Dists \cup {"none"} /\ clock >= 0 /\ rows >= 0 /\ Len(hist) <= rows
=============================================================================
