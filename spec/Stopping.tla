------------------------------- MODULE Stopping -------------------------------
(***************************************************************************)
(* kawin/precipitation/StoppingConditions.py and the stop logic of         *)
(* PrecipitateBase.postProcess.  A run records one row per step; row 0 is   *)
(* written by setup and is not tested.  Each condition watches one          *)
(* monitored quantity (a column of the history) against a threshold.        *)
(* Time is the row index (unit steps) so the interpolated time is an exact  *)
(* rational.                                                                *)
(***************************************************************************)
EXTENDS Rat, FiniteSets

CONSTANTS Values,      \* lattice of monitored values
          Conds,       \* sequence of conditions [gt |-> BOOLEAN, thr |-> Int, or |-> BOOLEAN, q |-> quantity index]
          NQ,          \* number of monitored quantities
          MaxRows,     \* rows after which the requested end time is reached
          PrevRule     \* "asbuilt": always interpolate with the previous row; "guarded": previous row already satisfying => its time

VARIABLES rows,        \* sequence of rows, each a tuple of NQ values (row 0 first)
          latched,     \* per condition
          tsat,        \* per condition, rational (or <<-1,1>> when not satisfied)
          state        \* "running" | "stopped" | "ended"
vars == <<rows, latched, tsat, state>>
NC == Len(Conds)
Holds(c, v) == IF c.gt THEN v > c.thr ELSE v < c.thr
N == Len(rows) - 1      \* index of the last row

Init == /\ \E r0 \in [1..NQ -> Values] : rows = <<r0>>
        /\ latched = [i \in 1..NC |-> FALSE] /\ tsat = [i \in 1..NC |-> <<-1, 1>>] /\ state = "running"

Interp(c, prev, cur, n) ==     \* (t_n - t_{n-1}) * (thr - prev) / (cur - prev) + t_{n-1} with unit steps
    IF PrevRule = "guarded" /\ Holds(c, prev) THEN RI(n - 1)
    ELSE IF cur = prev THEN <<-999, 1>>      \* the code divides by zero here (inf/nan)
    ELSE RAdd(RI(n - 1), R(c.thr - prev, cur - prev))

Step(r) ==
    /\ state = "running"
    /\ rows' = Append(rows, r)
    /\ LET n == Len(rows)      \* index of the new row
           newly == [i \in 1..NC |-> ~latched[i] /\ Holds(Conds[i], r[Conds[i].q])]
       IN  /\ latched' = [i \in 1..NC |-> latched[i] \/ newly[i]]
           /\ tsat' = [i \in 1..NC |-> IF newly[i] THEN Interp(Conds[i], rows[n][Conds[i].q], r[Conds[i].q], n) ELSE tsat[i]]
           /\ LET orC == \E i \in 1..NC : Conds[i].or /\ latched'[i]
                  ands == {i \in 1..NC : ~Conds[i].or}
                  andC == ands # {} /\ \A i \in ands : latched'[i]
              IN  state' = IF orC \/ andC THEN "stopped" ELSE IF n >= MaxRows THEN "ended" ELSE "running"

Reset == /\ state # "running"
         /\ \E r0 \in [1..NQ -> Values] : rows' = <<r0>>
         /\ latched' = [i \in 1..NC |-> FALSE] /\ tsat' = [i \in 1..NC |-> <<-1, 1>>] /\ state' = "running"

Next == (\E r \in [1..NQ -> Values] : Step(r)) \/ Reset
Spec == Init /\ [][Next]_vars

(* ------------------------------ C19 ------------------------------ *)
LatchMonotone == [][rows' # <<>> /\ Len(rows') > Len(rows) => \A i \in 1..NC : latched[i] => latched'[i] /\ tsat'[i] = tsat[i]]_vars
(* the run stops at the first row at which the stop formula holds on the monitored values seen so far, and only then *)
SatisfiedSoFar(i, k) == \E j \in 2..k : Holds(Conds[i], rows[j][Conds[i].q])     \* rows[1] is row 0 (not tested)
StopFormula(k) == \/ \E i \in 1..NC : Conds[i].or /\ SatisfiedSoFar(i, k)
                  \/ ({i \in 1..NC : ~Conds[i].or} # {} /\ \A i \in {i \in 1..NC : ~Conds[i].or} : SatisfiedSoFar(i, k))
StopsAtFirst == /\ (state = "stopped" => StopFormula(Len(rows)) /\ ~StopFormula(Len(rows) - 1))
                /\ (state # "stopped" => ~StopFormula(Len(rows)))
LatchIsHistory == \A i \in 1..NC : latched[i] <=> SatisfiedSoFar(i, Len(rows))
(* the reported time lies within the step on which the condition became satisfied *)
FirstSat(i) == CHOOSE j \in 2..Len(rows) : Holds(Conds[i], rows[j][Conds[i].q]) /\ \A k \in 2..(j - 1) : ~Holds(Conds[i], rows[k][Conds[i].q])
TimeInsideStep == \A i \in 1..NC : latched[i] =>
    LET n == FirstSat(i) - 1 IN RLe(RI(n - 1), tsat[i]) /\ RLe(tsat[i], RI(n))
ResetClears == [][Len(rows') = 1 /\ Len(rows) > 1 => \A i \in 1..NC : ~latched'[i] /\ tsat'[i] = <<-1, 1>>]_vars
=============================================================================
