------------------------------- MODULE MC_Shape -------------------------------
EXTENDS Shape
ArsDef == {<<"num", 0>>, <<"num", 1>>, <<"num", 3>>, <<"fn", 1>>}
(* bisection domain: Rs, Rmax integers; factor(R) = a + b R with a in {1, 3/2, 2, 3}, b in {0, 1/16, 1/8, 1/4}; tolerances 1/4 .. 1/64 *)
BisCases == {<<rs, rm, a, b, t>> \in (1..3) \X {4, 8, 16} \X {ROne, R(3, 2), RI(2), RI(3)} \X {RZero, R(1, 16), R(1, 8), R(1, 4)} \X {R(1, 4), R(1, 16), R(1, 64)} :
                RLt(RZero, RSub(ROne, RMul(RI(rs), b)))}
AllRootsFound == \A c \in BisCases : RootFound(RI(c[1]), RI(c[2]), c[3], c[4], c[5])
SomeBracketed == \E c \in BisCases : Bracketed(RI(c[1]), RI(c[2]), c[3], c[4])
SomeNotBracketed == \E c \in BisCases : ~Bracketed(RI(c[1]), RI(c[2]), c[3], c[4])
ASSUME AllRootsFound /\ SomeBracketed /\ SomeNotBracketed
===============================================================================
