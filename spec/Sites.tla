--------------------------------- MODULE Sites ---------------------------------
(***************************************************************************)
(* kawin/precipitation/KWNEuler.py, _calcNucleationSites (C14, last        *)
(* sentence): the pool of nucleation sites is kept PER KIND OF SITE and is *)
(* shared by every precipitate phase that nucleates on that kind.          *)
(*   bulk, grain corners     : a precipitate occupies one site   (M0)      *)
(*   dislocations, grain edges: occupied length along the line   (M1)      *)
(*   grain boundaries        : occupied boundary area            (M2)      *)
(* A phase nucleating on the surface of parent precipitates is offered the *)
(* parents' surface sites in addition.  All quantities are integers in a   *)
(* common unit (the harness measures in milli-units of 1e20 sites).        *)
(* State: kind[p], the three measures mom[p] = <<m0, m1, m2>> of each      *)
(* phase's distribution, surf[p] (surface sites phase p offers), pool[k],  *)
(* parents[p].  Actions change one phase's distribution or its site type.  *)
(***************************************************************************)
EXTENDS Integers, Sequences, FiniteSets, FiniteSetsExt, TLC
CONSTANTS Phases, Kinds, Pools, Steps, MaxOps
VARIABLES kind, mom, surf, pool, parents, nops, last
vars == <<kind, mom, surf, pool, parents, nops, last>>

Measure(k) == CASE k \in {"bulk", "grain corners"} -> 1
                [] k \in {"dislocations", "grain edges"} -> 2
                [] k = "grain boundaries" -> 3
SumOver(S, F(_)) == MapThenSumSet(F, S)
Larger(a, b) == IF a >= b THEN a ELSE b

(* occupation of the pool of kind k by all phases of that kind (state functions take the state explicitly so that
   the trace module can apply them to logged snapshots) *)
OccupiedIn(kd, mm, P, k) == LET F(q) == mm[q][Measure(k)] IN SumOver({q \in P : kd[q] = k}, F)
AvailIn(kd, mm, sf, pl, par, P, p) ==
    LET F(q) == sf[q]
    IN  Larger(pl[kd[p]] - OccupiedIn(kd, mm, P, kd[p]) + SumOver(par[p], F), 0)
Avail(p) == AvailIn(kind, mom, surf, pool, parents, Phases, p)

Init == /\ kind \in [Phases -> Kinds] /\ pool \in [Kinds -> Pools]
        /\ mom = [p \in Phases |-> <<0, 0, 0>>] /\ surf = [p \in Phases |-> 0]
        /\ parents \in [Phases -> SUBSET Phases] /\ \A p \in Phases : p \notin parents[p]
        /\ nops = 0 /\ last = [op |-> "init", p |-> 0, before |-> [p \in Phases |-> 0]]
Before == [p \in Phases |-> Avail(p)]
(* precipitates of phase p nucleate / grow: every measure and the offered surface may rise *)
Occupy(p) == \E d0, d1, d2, ds \in Steps :
                /\ d0 + d1 + d2 + ds > 0
                /\ mom' = [mom EXCEPT ![p] = <<@[1] + d0, @[2] + d1, @[3] + d2>>] /\ surf' = [surf EXCEPT ![p] = @ + ds]
                /\ last' = [op |-> "occupy", p |-> p, before |-> Before] /\ UNCHANGED <<kind, pool, parents>>
(* phase p dissolves completely *)
Dissolve(p) == /\ mom' = [mom EXCEPT ![p] = <<0, 0, 0>>] /\ surf' = [surf EXCEPT ![p] = 0]
               /\ last' = [op |-> "dissolve", p |-> p, before |-> Before] /\ UNCHANGED <<kind, pool, parents>>
SetSite(p) == \E k \in Kinds : kind' = [kind EXCEPT ![p] = k] /\ last' = [op |-> "site", p |-> p, before |-> Before]
                               /\ UNCHANGED <<mom, surf, pool, parents>>
Next == nops < MaxOps /\ nops' = nops + 1 /\ \E p \in Phases : Occupy(p) \/ Dissolve(p) \/ SetSite(p)
Spec == Init /\ [][Next]_vars

(* ---- C14: "the number of available nucleation sites decreases as precipitates occupy sites and is never negative" ---- *)
NeverNegative == \A p \in Phases : Avail(p) >= 0
(* occupation by ANY phase of the same kind (not only the phase itself) takes sites away from p unless p is its child *)
OccupationDecreases == last.op = "occupy" =>
    \A p \in Phases : kind[p] = kind[last.p] /\ last.p \notin parents[p] => Avail(p) <= last.before[p]
(* phases on another kind of site (and not children of the grown phase) are unaffected *)
OtherKindsUntouched == last.op = "occupy" =>
    \A p \in Phases : kind[p] # kind[last.p] /\ last.p \notin parents[p] => Avail(p) = last.before[p]
(* the pool is shared: two phases of one kind without parents see the same number *)
SharedPool == \A p, q \in Phases : kind[p] = kind[q] /\ parents[p] = {} /\ parents[q] = {} => Avail(p) = Avail(q)
(* exhausted means exhausted for everybody on that kind *)
Exhausted == \A p \in Phases : parents[p] = {} /\ OccupiedIn(kind, mom, Phases, kind[p]) >= pool[kind[p]] => Avail(p) = 0
(* vacuity companions: expected to be violated *)
VacSomeExhausted == ~(\E p \in Phases : Avail(p) = 0 /\ pool[kind[p]] > 0)
VacChildGains == ~(\E p \in Phases : parents[p] # {} /\ Avail(p) > pool[kind[p]])
=============================================================================
