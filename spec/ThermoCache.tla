----------------------------- MODULE ThermoCache -----------------------------
(***************************************************************************)
(* C09, purity of the pycalphad-backed queries (package kawin.thermo).      *)
(* The specification's state is the memo: the answer of every (kind,        *)
(* point) as given by an object with empty caches.  A query history may     *)
(* interleave queries of any kind and point, with cached equilibria kept    *)
(* or discarded (removeCache) and explicit clearCache calls, evaluated      *)
(* alone or inside an array; every answer must be the memo's answer, and    *)
(* no call may modify its argument arrays.  Answers are real numbers, so an *)
(* event carries the comparison of the observed answer with the memo        *)
(* (fixed rtol 1e-6, measured solver scatter <= 1e-9) rather than the value.*)
(***************************************************************************)
EXTENDS Integers, Sequences, FiniteSets, Json, IOUtils, TLCExt, TLC
Traces == JsonDeserialize(IOEnv.TRACES)
NT == Len(Traces)
VARIABLES tid, l, seen, fails
vars == <<tid, l, seen, fails>>
Tr == Traces[tid]
Ev == Tr[l]
ASSUME \A i \in 1..NT : TLCSet(i, [l |-> 0, fails |-> {}])
Add(f) == fails \cup {<<c, l>> : c \in {c \in f : \A x \in fails : x[1] # c}}
TInit == tid \in 1..NT /\ l = 2 /\ seen = {} /\ fails = {}
TQuery == /\ l <= Len(Tr) /\ Ev.e = "query"
          /\ LET key == <<Ev.kind, Ev.point>>
                 f ==    (IF Ev.vsmemo # "eq" THEN {"C09:answer-independent-of-history"} ELSE {})
                    \cup (IF key \in seen /\ Ev.vsfirst # "eq" THEN {"C09:repeat-gives-same-answer"} ELSE {})
                    \cup (IF ~Ev.argintact THEN {"C09:arguments-not-modified"} ELSE {})
                    \cup (IF "vsbatch" \in DOMAIN Ev /\ Ev.vsbatch # "eq" THEN {"C09:alone-equals-inside-array"} ELSE {})
             IN  fails' = Add(f) /\ seen' = seen \cup {key}
          /\ l' = l + 1 /\ tid' = tid
(* a query at a point where the code documents a fall-back (curvature / impingement where the precipitate is not stable): its own answer is
   not judged, but it is part of the history every later answer must be independent of, and it may not modify its arguments either *)
TAside == /\ l <= Len(Tr) /\ Ev.e = "aside"
          /\ fails' = Add(IF ~Ev.argintact THEN {"C09:arguments-not-modified"} ELSE {}) /\ UNCHANGED seen
          /\ l' = l + 1 /\ tid' = tid
TClear == /\ l <= Len(Tr) /\ Ev.e = "clear" /\ UNCHANGED <<seen, fails>> /\ l' = l + 1 /\ tid' = tid
TExc == /\ l <= Len(Tr) /\ Ev.e = "exception" /\ fails' = Add({"C09:no-internal-error"}) /\ UNCHANGED seen /\ l' = l + 1 /\ tid' = tid
TNext == TQuery \/ TAside \/ TClear \/ TExc
TSpec == TInit /\ [][TNext]_vars
Reached == TLCSet(tid, IF TLCGet(tid).l > l THEN TLCGet(tid) ELSE [l |-> l, fails |-> fails])
Report == JsonSerialize(IOEnv.OUTF, [i \in 1..NT |-> TLCGet(i)])
=============================================================================
