------------------------------ MODULE HashTable ------------------------------
(***************************************************************************)
(* kawin/diffusion/DiffusionParameters.py : HashTable -- the composition   *)
(* cache of the diffusion models.  A point is a sequence of decimals       *)
(* (composition components followed by the temperature); a decimal is      *)
(* <<m, q>> meaning m / 10^q.  The key of a point at precision s is the    *)
(* sequence of truncated products trunc(v * 10^s); since these exceed 32   *)
(* bits for fine precisions they are kept as <<mantissa, exponent>> with   *)
(* the mantissa free of trailing zeros (a mathematical integer, unlike the *)
(* int32 the code casts to).                                               *)
(***************************************************************************)
EXTENDS Integers, Sequences, FiniteSets, TLC

CONSTANTS Points, Precisions, MaxOps

VARIABLES enabled, sens, table, result, nops, nextVal
vars == <<enabled, sens, table, result, nops, nextVal>>

RECURSIVE Pow10(_)
Pow10(k) == IF k = 0 THEN 1 ELSE 10 * Pow10(k - 1)
RECURSIVE Strip(_, _)
Strip(m, e) == IF m # 0 /\ m % 10 = 0 THEN Strip(m \div 10, e + 1) ELSE <<m, IF m = 0 THEN 0 ELSE e>>
(* trunc(m/10^q * 10^s) as a normalised <<mantissa, exponent>> *)
K(v, s) == IF s >= v[2] THEN Strip(v[1], s - v[2]) ELSE Strip(v[1] \div Pow10(v[2] - s), 0)
Key(p, s) == [i \in 1..Len(p) |-> K(p[i], s)]

Miss == [hit |-> FALSE, v |-> 0]

Init == enabled = TRUE /\ sens = 4 /\ table = {} /\ result = Miss /\ nops = 0 /\ nextVal = 1

Enable(b) == enabled' = b /\ UNCHANGED <<sens, table, result, nextVal>>
(* changing the precision invalidates the keys computed at the old precision *)
SetSens(s) == sens' = s /\ table' = {} /\ UNCHANGED <<enabled, result, nextVal>>
Clear == table' = {} /\ UNCHANGED <<enabled, sens, result, nextVal>>
Add(p) == /\ table' = IF enabled
                        THEN {e \in table : e.key # Key(p, sens)} \cup {[key |-> Key(p, sens), origin |-> p, v |-> nextVal]}
                        ELSE table
          /\ nextVal' = nextVal + 1
          /\ UNCHANGED <<enabled, sens, result>>
Lookup(p) == IF enabled /\ \E e \in table : e.key = Key(p, sens)
             THEN [hit |-> TRUE, v |-> (CHOOSE e \in table : e.key = Key(p, sens)).v]
             ELSE Miss
Retrieve(p) == result' = Lookup(p) /\ UNCHANGED <<enabled, sens, table, nextVal>>

Next == /\ nops < MaxOps /\ nops' = nops + 1
        /\ \/ \E b \in BOOLEAN : Enable(b)
           \/ \E s \in Precisions : SetSens(s)
           \/ Clear
           \/ \E p \in Points : Add(p)
           \/ \E p \in Points : Retrieve(p)
Spec == Init /\ [][Next]_vars

(* ---- C09 (cache clause) ---- *)
(* the cache can be switched off *)
DisabledMisses == [][~enabled' /\ result' # result => result' = Miss]_vars
(* a cached value is only reused for a point that rounds to the same key at the configured precision *)
HitSound == \A e \in table : e.key = Key(e.origin, sens)
OneEntryPerKey == \A e, f \in table : e.key = f.key => e = f
=============================================================================
