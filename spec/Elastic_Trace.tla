----------------------------- MODULE Elastic_Trace -----------------------------
(* Trace validation of real StrainEnergy objects against Elastic.tla (Mode = "fixed").
   A trace is one history of setter / update / compute calls on one object (harness/c16_drv.py).  After every call the
   harness identifies the derived data the object holds (which stiffness rotated by which rotation, by comparing params with
   every candidate; how often the stored stress has been rotated) and logs them; the event is consumed by the spec action of the
   same name and the logged data must equal the spec's next state.  compute events also carry the three-way comparison of the
   returned energy with that of a fresh object built in canonical order (rotation, stiffness, shape, eigenstrain).
   The acceptor is total: mismatches are collected as failed clauses. *)
EXTENDS Elastic, Json, IOUtils, TLCExt
Traces == JsonDeserialize(IOEnv.TRACES)
NT == Len(Traces)
VARIABLES tid, l, fails
tvars == <<vars, tid, l, fails>>
Tr == Traces[tid]
Ev == Tr[l]
ASSUME \A i \in 1..NT : TLCSet(i, [l |-> 0, fails |-> {}])
Weight(r) == CASE r = "I" -> 0 [] r = "R1" -> 1 [] r = "R2" -> 2 [] OTHER -> 0
RECURSIVE Angle(_)
Angle(sq) == IF sq = <<>> THEN 0 ELSE Weight(Head(sq)) + Angle(Tail(sq))
TInit == Init /\ tid \in 1..NT /\ l = 2 /\ fails = {}
Act(e) == CASE e.op = "setC" -> SetC(e.arg)
            [] e.op = "setP" -> SetP(e.arg)
            [] e.op = "setRot" -> SetRot(e.arg)
            [] e.op = "setRotP" -> SetRotP(e.arg)
            [] e.op = "setEig" -> SetEig(e.arg)
            [] e.op = "setStress" -> SetStress(e.arg)
            [] e.op = "setShape" -> SetShape(e.arg)
            [] e.op = "update" -> Update
            [] e.op = "compute" -> Compute
            [] e.op \in {"otherEig", "otherC", "otherStress"} -> OtherObject
Mismatch(e) ==
       (IF dC' # <<e.obs.dC[1], e.obs.dC[2]>> THEN {"C16:matrix-stiffness-in-force=rotate(current rotation, current stiffness)"} ELSE {})
  \cup (IF dP' # <<e.obs.dP[1], e.obs.dP[2]>> THEN {"C16:precipitate-stiffness-in-force=rotate(current rotation, current stiffness)"} ELSE {})
  \cup (IF shape' # e.obs.shape THEN {"C16:description-in-force"} ELSE {})
  \cup (IF dS'[1] # e.obs.sId \/ (dS'[1] # Zero /\ Angle(dS'[2]) # e.obs.sAngle) THEN {"ext:applied-stress-as-modelled"} ELSE {})
  \cup (IF eig' # e.obs.eId THEN {"C16:eigenstrain-in-force=last-supplied-to-this-object"} ELSE {})
  \cup (IF e.op = "compute" /\ e.cmp # "eq" THEN {"C16:energy-independent-of-setter-order"} ELSE {})
  \cup (IF rawC' # Zero /\ ~(dC' = <<rawC', rot'>> /\ dP' = (IF rawP' # Zero THEN <<rawP', rotP'>> ELSE <<rawC', rot'>>)) THEN {"spec:DerivedCurrent"} ELSE {})
TStep == /\ l <= Len(Tr) /\ Ev.e = "op" /\ Act(Ev) /\ UNCHANGED nops
         /\ fails' = fails \cup {<<c, l, Ev.op>> : c \in {c \in Mismatch(Ev) : \A x \in fails : x[1] # c}}
         /\ l' = l + 1 /\ tid' = tid
TExc == /\ l <= Len(Tr) /\ Ev.e = "exception" /\ fails' = fails \cup {<<"exception: " \o Ev.msg, l, "">>} /\ l' = l + 1 /\ UNCHANGED <<vars, tid>>
TNext == TStep \/ TExc
TSpec == TInit /\ [][TNext]_tvars
Reached == TLCSet(tid, IF TLCGet(tid).l > l THEN TLCGet(tid) ELSE [l |-> l, fails |-> fails])
Report == JsonSerialize(IOEnv.OUTF, [i \in 1..NT |-> TLCGet(i)])
=============================================================================
