SPECIFICATION Spec
CONSTANTS
  RefreshMode = "asbuilt"
  MaxTempChange = 2
  Deltas <- DeltasDef
  MaxSteps = 6
  Tlo = 0
  Thi = 12
INVARIANT LookupFresh
INVARIANT AccumulatorExact
