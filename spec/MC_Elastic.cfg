SPECIFICATION Spec
CONSTANTS
  Stiff = {"C1", "C2"}
  Rots = {"I", "R1"}
  Eigs = {"e1"}
  Stresses = {"s1"}
  Shapes = {"ellipsoid", "sphere"}
  MaxOps = 5
  Mode = "fixed"
INVARIANT DerivedCurrent
INVARIANT OrderIndependent
PROPERTY ShapeRule
