--------------------------- MODULE MC_ModelConfig ---------------------------
(* Model-checking instance of ModelConfig: histories start from one representative configuration per site type of the first phase,
   per site type of the second phase and per number of phases (every other input at a fixed value; the setters reach the rest). *)
EXTENDS ModelConfig
First(S) == CHOOSE x \in S : TRUE
MCStarts == {[vmA |-> First(VmAs), vmB |-> First(VmBs), gamma |-> First(Gammas), site |-> s, gbe |-> First(Gbes), grain |-> First(Grains),
              disl |-> First(Disls), x0 |-> First(X0s), bulk |-> "auto", shape |-> "sphere",
              vmB2 |-> First(VmBs), gamma2 |-> First(Gammas), site2 |-> s2, shape2 |-> "sphere", np |-> n] :
                 s \in Sites, s2 \in Sites, n \in NPs}
=============================================================================
