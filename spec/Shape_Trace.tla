------------------------------ MODULE Shape_Trace ------------------------------
(* Trace validation of real ShapeFactor objects against Shape.tla: one trace = one history of setPrecipitateShape / setAspectRatio
   calls and queries; after every call the harness logs the description in force, the aspect ratio mode, the finder and the number of
   callbacks fired; a query logs the aspect ratio the factor functions effectively used (recovered from the returned radii). *)
EXTENDS Shape, Json, IOUtils, TLCExt
Traces == JsonDeserialize(IOEnv.TRACES)
NT == Len(Traces)
VARIABLES tid, l, fails
tvars == <<vars, tid, l, fails>>
Tr == Traces[tid]
Ev == Tr[l]
ASSUME \A i \in 1..NT : TLCSet(i, [l |-> 0, fails |-> {}])
A(v) == <<v[1], v[2]>>
TInit == Init /\ tid \in 1..NT /\ l = 2 /\ fails = {}
Act(e) == CASE e.op = "setShape" -> SetShape(e.kind, A(e.ar), e.inst)
            [] e.op = "setAr" -> SetAr(A(e.ar))
            [] e.op = "swapDesc" -> SwapDescription(e.kind)
            [] e.op = "query" -> Query
Mismatch(e) ==
       (IF kind' # e.obs.kind THEN {"shape:description-in-force"} ELSE {})
  \cup (IF ar' # A(e.obs.ar) THEN {"shape:aspect-ratio-in-force"} ELSE {})
  \cup (IF finder' # e.obs.finder THEN {"shape:finder-matches-aspect-ratio-mode"} ELSE {})
  \cup (IF fired' # e.obs.fired THEN {"shape:callbacks-fire-once-per-shape-change"} ELSE {})
  \cup (IF e.op = "query" /\ last'.eff # A(e.obs.eff) THEN {"C15:aspect-ratio-below-1-treated-as-1"} ELSE {})
  \cup (IF e.op = "query" /\ ~e.obs.rootok THEN {"C15:critical-radius-search-returns-a-root-of-the-description-in-force"} ELSE {})
TStep == /\ l <= Len(Tr) /\ Ev.e = "op" /\ Act(Ev) /\ UNCHANGED nops
         /\ fails' = fails \cup {<<c, l, Ev.op>> : c \in {c \in Mismatch(Ev) : \A x \in fails : x[1] # c}}
         /\ l' = l + 1 /\ tid' = tid
TExc == /\ l <= Len(Tr) /\ Ev.e = "exception" /\ fails' = fails \cup {<<"exception: " \o Ev.msg, l, "">>} /\ l' = l + 1 /\ UNCHANGED <<vars, tid>>
TNext == TStep \/ TExc
TSpec == TInit /\ [][TNext]_tvars
Reached == TLCSet(tid, IF TLCGet(tid).l > l THEN TLCGet(tid) ELSE [l |-> l, fails |-> fails])
Report == JsonSerialize(IOEnv.OUTF, [i \in 1..NT |-> TLCGet(i)])
=============================================================================
