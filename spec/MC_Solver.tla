---------------------------- MODULE MC_Solver ----------------------------
EXTENDS Solver
PropsFull == { P("nan", 0), P("pinf", 0), P("ninf", 0), P("num", -1), P("num", 0), P("num", 1),
               P("num", 2), P("num", 3), P("num", 8), P("num", 800) }
PropsSmall == { P("nan", 0), P("pinf", 0), P("num", -1), P("num", 1), P("num", 3) }
LayA == << <<>>, <<2>> >>          \* scalar + vector of 2
LayB == << <<3>> >>                \* one vector of 3
LayC == << <<2, 2>>, <<>> >>       \* 2x2 matrix + scalar
LayD == << <<1>>, <<>>, <<3>> >>   \* one-element array + scalar + vector of 3
Lay1 == {LayA}
Lay2 == {LayA, LayB}
Lay3 == {LayA, LayB, LayC}
Lay4 == {LayA, LayD}
=============================================================================
