------------------------------ MODULE Sites_Trace ------------------------------
(* Acceptor: every event is a snapshot of a real PrecipitateModel (site type, measures, offered surface of every phase, pools,
   parents; all in integer milli-units, see harness/c14_drv.py: site_snapshots) together with the value _calcNucleationSites
   returned for every phase.  The value must equal Sites!AvailIn of the snapshot within the rounding allowance tol
   (one milli-unit per summed term), and the state properties of Sites.tla must hold on the observed values. *)
EXTENDS Integers, Sequences, FiniteSets, Json, IOUtils, TLCExt, TLC
Traces == JsonDeserialize(IOEnv.TRACES)
NT == Len(Traces)
VARIABLES tid, l, fails
vars == <<tid, l, fails>>
S == INSTANCE Sites WITH Phases <- {}, Kinds <- {}, Pools <- {}, Steps <- {}, MaxOps <- 0,
                         kind <- <<>>, mom <- <<>>, surf <- <<>>, pool <- <<>>, parents <- <<>>, nops <- 0, last <- <<>>
Tr == Traces[tid]
Ev == Tr[l]
ASSUME \A i \in 1..NT : TLCSet(i, [l |-> 0, fails |-> {}])
Abs(x) == IF x < 0 THEN -x ELSE x
P(e) == 1..Len(e.kinds)
Par(e) == [p \in P(e) |-> {e.parents[p][i] : i \in 1..Len(e.parents[p])}]
(* surface offered to p by each of its parents, in the unit of p's own kind of site *)
SurfTo(e, p) == [q \in P(e) |-> IF \E i \in 1..Len(e.parents[p]) : e.parents[p][i] = q
                                  THEN e.surfTo[p][CHOOSE i \in 1..Len(e.parents[p]) : e.parents[p][i] = q] ELSE 0]
Want(e, p) == S!AvailIn(e.kinds, e.mom, SurfTo(e, p), e.pool, Par(e), P(e), p)
Clauses(e) ==
       (IF \E p \in P(e) : e.obs[p] < 0 THEN {"C14:sites-nonnegative"} ELSE {})
  \cup (IF \E p \in P(e) : Abs(e.obs[p] - Want(e, p)) > e.tol THEN {"C14:sites=max(pool(kind)-occupied(kind)+parent-surface,0)"} ELSE {})
  \cup (IF \E p, q \in P(e) : e.kinds[p] = e.kinds[q] /\ e.parents[p] = <<>> /\ e.parents[q] = <<>> /\ Abs(e.obs[p] - e.obs[q]) > e.tol
          THEN {"C14:pool-shared-by-phases-of-one-kind"} ELSE {})
(* successive snapshots of one trace only ADD precipitates (the driver's contract, flagged grow = TRUE): nobody without parents gains sites *)
Mono(e, prev) == IF e.grow /\ \E p \in P(e) : e.parents[p] = <<>> /\ e.obs[p] > prev.obs[p] + e.tol
                   THEN {"C14:sites-decrease-with-occupation"} ELSE {}
TInit == tid \in 1..NT /\ l = 2 /\ fails = {}
TSnap == /\ l <= Len(Tr) /\ Ev.e = "sites"
         /\ LET new == Clauses(Ev) \cup (IF l > 2 /\ Tr[l - 1].e = "sites" THEN Mono(Ev, Tr[l - 1]) ELSE {})
            IN  fails' = fails \cup {<<c, Ev.name>> : c \in {c \in new : \A x \in fails : x[1] # c}}
         /\ l' = l + 1 /\ tid' = tid
TExc == /\ l <= Len(Tr) /\ Ev.e = "exception" /\ fails' = fails \cup {<<"exception", Ev.msg>>} /\ l' = l + 1 /\ tid' = tid
TNext == TSnap \/ TExc
TSpec == TInit /\ [][TNext]_vars
Reached == TLCSet(tid, IF TLCGet(tid).l > l THEN TLCGet(tid) ELSE [l |-> l, fails |-> fails])
Report == JsonSerialize(IOEnv.OUTF, [i \in 1..NT |-> TLCGet(i)])
=============================================================================
