SPECIFICATION Spec
CONSTANTS
  MaxLen = 3
  Configs <- ConfigsQuick
  AllowSpikeLoss = TRUE
INVARIANT InvGridConsistent
INVARIANT NoError
PROPERTY PropExtend
PROPERTY PropRemesh
PROPERTY PropAdaptive
PROPERTY PropReset
