--------------------------- MODULE Homogenization ---------------------------
(***************************************************************************)
(* kawin/diffusion/HomogenizationParameters.py: the five averaging rules   *)
(* and the post-processing options, over exact rationals.                  *)
(* A case:  names (stable phases at the point, in the order the            *)
(* equilibrium returned them), mob[p][e] (phase mobility, <<-1,1>> =       *)
(* undefined, the code's sentinel), frac[p], rule, labn, post = [mode,     *)
(* arg].  Undefined mobilities are substituted by an extreme value: 0 in   *)
(* the upper rules / labyrinth, +infinity in the lower rules (the code     *)
(* uses the smallest / largest float).                                     *)
(***************************************************************************)
EXTENDS Rat, FiniteSets

Undef == <<-1, 1>>
P(c) == 1..Len(c.names)
Els(c) == 1..Len(c.mob[1])
IsDef(m) == m # Undef

(* ---------------- post-processing: acts on the phase the user NAMED ---------------- *)
Row(c, name) == CHOOSE p \in P(c) : c.names[p] = name
Has(c, name) == \E p \in P(c) : c.names[p] = name
Majority(c) == CHOOSE p \in P(c) : /\ \A q \in P(c) : RLe(c.frac[q], c.frac[p])
                                   /\ \A q \in 1..(p - 1) : RLt(c.frac[q], c.frac[p])      \* np.argmax: first maximum
FillFrom(c, src) == [p \in P(c) |-> [e \in Els(c) |-> IF c.mob[p][e] = Undef THEN c.mob[src][e] ELSE c.mob[p][e]]]
PostMob(c) == CASE c.post.mode = "predefined" /\ Has(c, c.post.arg) -> FillFrom(c, Row(c, c.post.arg))
                [] c.post.mode = "majority" -> FillFrom(c, Majority(c))
                [] OTHER -> c.mob
PostFrac(c) == IF c.post.mode = "exclude"
                 THEN [p \in P(c) |-> IF \E i \in 1..Len(c.post.arg) : c.post.arg[i] = c.names[p] THEN RZero ELSE c.frac[p]]
                 ELSE c.frac

(* ---------------- the rules, for one element; m, f are functions over the phases ---------------- *)
SumP(S, F(_)) == RSumOver([p \in S |-> F(p)], S)
WienerUpper(S, m, f) == LET T(p) == IF IsDef(m[p]) THEN RMul(f[p], m[p]) ELSE RZero IN SumP(S, T)
Lab(S, m, f, n) == LET T(p) == IF IsDef(m[p]) THEN RMul(IF n = 2 THEN RMul(f[p], f[p]) ELSE f[p], m[p]) ELSE RZero IN SumP(S, T)
WienerLower(S, m, f) == LET T(p) == IF IsDef(m[p]) THEN RDiv(f[p], m[p]) ELSE RZero IN RInv(SumP(S, T))
MaxDef(S, m) == LET D == {m[p] : p \in {p \in S : IsDef(m[p])}} IN CHOOSE x \in D : \A y \in D : RLe(y, x)
MinDef(S, m) == LET D == {m[p] : p \in {p \in S : IsDef(m[p])}} IN CHOOSE x \in D : \A y \in D : RLe(x, y)
(* Ak = sum f (m - mx) 3 mx / (2 mx + m),  avg = mx + Ak / (1 - Ak / (3 mx)),  mx the extreme mobility *)
HSGeneral(S, m, f, ext, undefTerm(_)) ==
    LET T(p) == IF IsDef(m[p]) THEN RDiv(RMul(RMul(f[p], RSub(m[p], ext)), RMul(RI(3), ext)), RAdd(RMul(RI(2), ext), m[p]))
                ELSE undefTerm(p)
        Ak == SumP(S, T)
    IN  RAdd(ext, RDiv(Ak, RSub(ROne, RDiv(Ak, RMul(RI(3), ext)))))
HashinUpper(S, m, f) == LET ext == MaxDef(S, m)
                            U(p) == RMul(f[p], RMul(RNeg(ext), R(3, 2)))       \* m -> 0 : f (0 - mx) 3 mx / (2 mx)
                        IN  HSGeneral(S, m, f, ext, U)
HashinLower(S, m, f) == LET ext == MinDef(S, m)
                            U(p) == RMul(f[p], RMul(RI(3), ext))               \* m -> infinity : f 3 mx
                        IN  HSGeneral(S, m, f, ext, U)

Rule(c, S, m, f) == CASE c.rule = "wu" -> WienerUpper(S, m, f)
                      [] c.rule = "wl" -> WienerLower(S, m, f)
                      [] c.rule = "hu" -> HashinUpper(S, m, f)
                      [] c.rule = "hl" -> HashinLower(S, m, f)
                      [] c.rule = "lab" -> Lab(S, m, f, c.labn)

Col(mm, S, e) == [p \in S |-> mm[p][e]]
Avg(c) == LET mm == PostMob(c)  ff == PostFrac(c)
          IN  [e \in Els(c) |-> Rule(c, P(c), Col(mm, P(c), e), ff)]

(* ---------------- C17 clauses (all mobilities defined, fractions sum to one) ---------------- *)
AllDef(c) == \A p \in P(c), e \in Els(c) : IsDef(c.mob[p][e])
Bounds(c) == AllDef(c) /\ c.post.mode = "none" => \A e \in Els(c) :
    LET m == Col(c.mob, P(c), e)  f == c.frac  S == P(c)
        wl == WienerLower(S, m, f)  hl == HashinLower(S, m, f)  hu == HashinUpper(S, m, f)  wu == WienerUpper(S, m, f)
    IN  /\ RLe(MinDef(S, m), wl) /\ RLe(wl, hl) /\ RLe(hl, hu) /\ RLe(hu, wu) /\ RLe(wu, MaxDef(S, m))
        /\ REq(Lab(S, m, f, 1), wu) /\ RLe(Lab(S, m, f, 2), wu)
        /\ (Cardinality(S) = 1 => wl = m[1] /\ hl = m[1] /\ hu = m[1] /\ wu = m[1])
=============================================================================
