-------------------------------- MODULE Elastic --------------------------------
(***************************************************************************)
(* kawin/precipitation/parameters/ElasticFactors.py, class StrainEnergy:   *)
(* the user supplies matrix stiffness, precipitate stiffness, two rotation *)
(* matrices, an eigenstrain, an applied stress and a shape, in any order;  *)
(* compute(r) works on DERIVED data held in `params` (rotated stiffness    *)
(* tensors in 4th- and 2nd-rank form, rotated applied stress, applied      *)
(* strain) which update() refreshes.  C16 (order clause): the energy does  *)
(* not depend on the order in which rotation and stiffness were supplied,  *)
(* i.e. whenever compute is called the derived data are those of the       *)
(* CURRENT inputs.                                                         *)
(* Tensors are abstract identifiers; a derived tensor is the pair          *)
(* <<identifier, rotation>> it was produced from ("stamp").                *)
(* Mode = "asbuilt": the rotation setters only store the matrix.           *)
(* Mode = "fixed": they also refresh the derived data when a matrix        *)
(* stiffness is present.  In both modes update() rotates the STORED        *)
(* applied stress in place, so every update rotates it once more -- a      *)
(* named deviation (DeviationStressRotatedOnce) outside C16's text: the    *)
(* applied stress only enters strainEnergyEllipsoidWithStress, which the   *)
(* precipitation model does not use.                                       *)
(***************************************************************************)
EXTENDS Integers, Sequences, FiniteSets, TLC
CONSTANTS Stiff, Rots, Eigs, Stresses, Shapes, MaxOps, Mode
Zero == "zero"
Identity == "I"
VARIABLES rawC, rawP, rot, rotP, eig, rawS,      \* what the user supplied last
          shape,                                  \* the description object in force
          dC, dP, dS,                             \* derived: stamps <<id, rotation>>; dS = <<id, sequence of rotations applied>>
          result, nops
vars == <<rawC, rawP, rot, rotP, eig, rawS, shape, dC, dP, dS, result, nops>>

None == [set |-> FALSE, shape |-> "", dC |-> <<Zero, Identity>>, dP |-> <<Zero, Identity>>, eig |-> Zero, dS |-> <<Zero, <<>>>>]
Init == /\ rawC = Zero /\ rawP = Zero /\ rot = Identity /\ rotP = Identity /\ eig = Zero /\ rawS = Zero
        /\ shape \in {"constant"}
        /\ dC = <<Zero, Identity>> /\ dP = <<Zero, Identity>> /\ dS = <<Zero, <<>>>>
        /\ result = None /\ nops = 0

(* update(): refresh the derived data from the inputs (matrix stiffness present), else fall back to a constant energy *)
UpdateFrom(c, p, r, rp, s, sh, ds) ==
    IF c # Zero
    THEN /\ shape' = IF sh = "constant" THEN "sphere" ELSE sh
         /\ dC' = <<c, r>>
         /\ dP' = IF p # Zero THEN <<p, rp>> ELSE <<c, r>>
         /\ dS' = <<ds[1], Append(ds[2], r)>>          \* rotates what is stored, again and again
    ELSE /\ shape' = "constant" /\ UNCHANGED <<dC, dP, dS>>

SetC(c) == rawC' = c /\ UpdateFrom(c, rawP, rot, rotP, rawS, shape, dS) /\ UNCHANGED <<rawP, rot, rotP, eig, rawS, result>>
SetP(p) == rawP' = p /\ UpdateFrom(rawC, p, rot, rotP, rawS, shape, dS) /\ UNCHANGED <<rawC, rot, rotP, eig, rawS, result>>
SetRot(r) == /\ rot' = r /\ UNCHANGED <<rawC, rawP, rotP, eig, rawS, result>>
             /\ IF Mode = "asbuilt" \/ rawC = Zero THEN UNCHANGED <<shape, dC, dP, dS>> ELSE UpdateFrom(rawC, rawP, r, rotP, rawS, shape, dS)
SetRotP(r) == /\ rotP' = r /\ UNCHANGED <<rawC, rawP, rot, eig, rawS, result>>
              /\ IF Mode = "asbuilt" \/ rawC = Zero THEN UNCHANGED <<shape, dC, dP, dS>> ELSE UpdateFrom(rawC, rawP, rot, r, rawS, shape, dS)
SetEig(e) == eig' = e /\ UNCHANGED <<rawC, rawP, rot, rotP, rawS, shape, dC, dP, dS, result>>
(* setAppliedStress writes the tensor into params directly (no rotation yet) *)
SetStress(s) == /\ rawS' = s /\ UNCHANGED <<rawC, rawP, rot, rotP, eig, result>>
                /\ dS' = <<s, <<>>>> /\ UNCHANGED <<shape, dC, dP>>
SetShape(sh) == shape' = sh /\ UNCHANGED <<rawC, rawP, rot, rotP, eig, rawS, dC, dP, dS, result>>
Update == UpdateFrom(rawC, rawP, rot, rotP, rawS, shape, dS) /\ UNCHANGED <<rawC, rawP, rot, rotP, eig, rawS, result>>
(* a call on ANOTHER StrainEnergy object: objects share nothing, so nothing of this one changes *)
OtherObject == UNCHANGED <<rawC, rawP, rot, rotP, eig, rawS, shape, dC, dP, dS, result>>
(* compute(r): everything the returned energy depends on *)
Compute == /\ result' = [set |-> TRUE, shape |-> shape, dC |-> dC, dP |-> dP, eig |-> eig, dS |-> dS]
           /\ UNCHANGED <<rawC, rawP, rot, rotP, eig, rawS, shape, dC, dP, dS>>

Next == /\ nops < MaxOps /\ nops' = nops + 1
        /\ \/ \E c \in Stiff : SetC(c) \/ SetP(c)
           \/ \E r \in Rots : SetRot(r) \/ SetRotP(r)
           \/ \E e \in Eigs : SetEig(e)
           \/ \E s \in Stresses : SetStress(s)
           \/ \E sh \in Shapes : SetShape(sh)
           \/ Update \/ Compute \/ OtherObject
Spec == Init /\ [][Next]_vars

(* ------------------------------- C16, order clause ------------------------------- *)
(* what the derived data must be for the inputs now in force *)
WantC == <<rawC, rot>>
WantP == IF rawP # Zero THEN <<rawP, rotP>> ELSE <<rawC, rot>>
WantS == <<rawS, IF rawS = Zero \/ rot = Identity THEN <<>> ELSE <<rot>>>>
Norm(ds) == <<ds[1], IF ds[1] = Zero THEN <<>> ELSE SelectSeq(ds[2], LAMBDA r : r # Identity)>>
(* the stiffness an energy is computed with is that of the current inputs, whatever the order of the setters *)
DerivedCurrent == rawC # Zero => dC = WantC /\ dP = WantP
OrderIndependent == result.set /\ rawC # Zero /\ result.dC = dC /\ result.dP = dP => result.dC = WantC /\ result.dP = WantP
(* named deviation (not in C16's text; violated as built): the applied stress is rotated exactly once, by the current rotation *)
DeviationStressRotatedOnce == rawC # Zero => Norm(dS) = WantS
(* a non-zero stiffness never leaves the constant-energy description in force after an update *)
ShapeRule == [][rawC' # Zero /\ (dC' # dC \/ rawC' # rawC) => shape' # "constant"]_vars
(* vacuity companions: expected to be violated *)
VacComputedRotated == ~(result.set /\ result.dC[1] # Zero /\ result.dC[2] # Identity)
VacPrecDiffers == ~(result.set /\ result.dP # result.dC)
=============================================================================
