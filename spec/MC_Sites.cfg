SPECIFICATION Spec
CONSTANTS
  Phases = {1, 2}
  Kinds = {"bulk", "dislocations", "grain corners"}
  Pools = {0, 3}
  Steps = {0, 2}
  MaxOps = 2
INVARIANT NeverNegative
INVARIANT OccupationDecreases
INVARIANT OtherKindsUntouched
INVARIANT SharedPool
INVARIANT Exhausted
