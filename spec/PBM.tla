--------------------------------- MODULE PBM ---------------------------------
(***************************************************************************)
(* kawin/precipitation/PopulationBalance.py -- the size-class grid as a    *)
(* state machine.  The object state is one record; every public grid       *)
(* operation is a function  Do(s, op)  from record to record, transcribed  *)
(* as built over exact rationals.  The same function drives (a) TLC's      *)
(* exploration of operation histories (PBM_MC) and (b) the evaluator that  *)
(* predicts the attributes of the real object after each operation of a    *)
(* history executed by the harness (PBM_Hist).                             *)
(***************************************************************************)
EXTENDS Rat, FiniteSets

(* ----- helpers on sequences of rationals ----- *)
Seq0(k) == [i \in 1..k |-> RZero]
Lin(a, b, k) == [j \in 1..(k + 1) |-> RAdd(a, RDiv(RMul(RSub(b, a), RI(j - 1)), RI(k)))]   \* np.linspace(a, b, k+1)
Mid(bd) == [i \in 1..(Len(bd) - 1) |-> RDiv(RAdd(bd[i], bd[i + 1]), RI(2))]
Wid(bd) == [i \in 1..(Len(bd) - 1) |-> RSub(bd[i + 1], bd[i])]
RECURSIVE RPowK(_, _)
RPowK(x, k) == IF k = 0 THEN ROne ELSE RMul(x, RPowK(x, k - 1))
Mom(psd, bd, k) == RSumOver([i \in 1..Len(psd) |-> RMul(psd[i], RPowK(Mid(bd)[i], k))], 1..Len(psd))
Gt1(x) == RLt(ROne, x)

(* np.interp(x, xp, fp): clamped piecewise-linear interpolation, xp strictly increasing *)
Interp(x, xp, fp) ==
    LET n == Len(xp)
    IN  IF ~RLt(xp[1], x) THEN fp[1]
        ELSE IF ~RLt(x, xp[n]) THEN fp[n]
        ELSE LET i == CHOOSE i \in 1..(n - 1) : RLe(xp[i], x) /\ RLt(x, xp[i + 1])
             IN  RAdd(fp[i], RDiv(RMul(RSub(fp[i + 1], fp[i]), RSub(x, xp[i])), RSub(xp[i + 1], xp[i])))

(* ----- the object ----- *)
New(cmin, cmax, bins, minBins, maxBins, adaptive) ==
    LET mx == RMax(RMul(RI(10), cmin), cmax)
    IN [ min |-> cmin, max |-> mx, bins |-> bins, omin |-> cmin, omax |-> mx, obins |-> bins,
         minBins |-> minBins, maxBins |-> maxBins, adaptive |-> adaptive,
         bounds |-> Lin(cmin, mx, bins), psd |-> Seq0(bins),
         prevPsd |-> Seq0(bins), prevBounds |-> Lin(cmin, mx, bins), backed |-> FALSE, err |-> "",
         recording |-> FALSE, rec |-> <<>>, hasRec |-> FALSE, clock |-> 0 ]

Reset(s, resetBounds) ==
    LET t == IF resetBounds THEN [s EXCEPT !.min = s.omin, !.max = s.omax, !.bins = s.obins] ELSE s
    (* a full reset also forgets the backup (it then holds the fresh, empty grid); a re-mesh (resetBounds = FALSE) leaves the
       backup alone, so that backup - re-mesh - revert restores what was backed up.  As built before the repair every reset put
       zeros into the backup, bounds included, and a later revert installed a grid whose boundaries were all 0. *)
    IN  IF resetBounds
          THEN [t EXCEPT !.bounds = Lin(t.min, t.max, t.bins), !.psd = Seq0(t.bins),
                         !.prevPsd = Seq0(t.bins), !.prevBounds = Lin(t.min, t.max, t.bins), !.backed = FALSE]
          ELSE [t EXCEPT !.bounds = Lin(t.min, t.max, t.bins), !.psd = Seq0(t.bins)]

AddClasses(s, k) ==
    LET nb == s.bins + k
        mx == RAdd(s.max, RMul(RI(k), RSub(s.bounds[2], s.bounds[1])))
    IN  [s EXCEPT !.bins = nb, !.psd = s.psd \o Seq0(k), !.max = mx, !.bounds = Lin(s.min, mx, nb)]

(* changeSizeClasses(cMin, cMax, bins, resetPSD); n = 0 stands for bins=None *)
ChangeClasses(s, a, b, n, resetPSD) ==
    LET nb == IF n = 0 THEN s.bins ELSE n
        mx == RMax(RMul(RI(10), a), b)
        s1 == [s EXCEPT !.bins = nb, !.min = a, !.max = mx]
    IN  IF resetPSD THEN Reset(s1, TRUE)        \* as built: reset() restores the *original* grid
        ELSE LET oldV == Mom(s.psd, s.bounds, 3)
                 den == [i \in 1..Len(s.psd) |-> RDiv(s.psd[i], Wid(s.bounds)[i])]
                 rOld == Mid(s.bounds)
                 s2 == Reset(s1, FALSE)
                 raw == [i \in 1..nb |-> RMul(Interp(Mid(s2.bounds)[i], rOld, den), Wid(s2.bounds)[i])]
                 newV == Mom(raw, s2.bounds, 3)
             IN  [s2 EXCEPT !.psd = IF newV # RZero THEN [i \in 1..nb |-> RMul(raw[i], RDiv(oldV, newV))]
                                    ELSE Seq0(nb)]

Populated(s) == {i \in 1..Len(s.psd) : Gt1(s.psd[i])}
MaxOver(f, S) == LET i == CHOOSE i \in S : \A j \in S : RLe(f[j], f[i]) IN f[i]

(* adjustSizeClassesEuler(checkDissolution) *)
Adjust(s, chk) ==
    LET s1 == IF Gt1(s.psd[Len(s.psd)]) THEN AddClasses(s, s.obins \div 4) ELSE s
    IN  IF ~s1.adaptive THEN s1
        ELSE IF s1.bins > s1.maxBins
               THEN ChangeClasses(s1, s1.bounds[1], s1.bounds[Len(s1.bounds)], s1.minBins, FALSE)
        ELSE IF chk /\ RLt(RMul(RI(10), s1.bounds[1]), s1.bounds[Len(s1.bounds)])
               THEN IF Populated(s1) = {} THEN s1
                    \* (the reference class is minBins/2, kept inside the grid: a grid may hold fewer classes than minBins -- fix c0cd1b2;
                    \*  before it the code raised an IndexError there)
                    ELSE IF RLt(MaxOver(Mid(s1.bounds), Populated(s1)),
                                Mid(s1.bounds)[IF (s1.minBins \div 2) + 1 > s1.bins THEN s1.bins ELSE (s1.minBins \div 2) + 1])
                      THEN ChangeClasses(s1, s1.bounds[1],
                                         MaxOver([i \in 1..s1.bins |-> s1.bounds[i + 1]], Populated(s1)), s1.maxBins, FALSE)
                      ELSE s1
        ELSE s1

(* ---- recording of the distribution (enableRecording / record / resetRecordedData / removeRecordedData) ----
   rec is the sequence of recorded rows [t, bounds, psd]; the code pads rows with zeros to a common width, the
   initial row written by enableRecording is t = 0 with no grid (all zeros). *)
ZeroRow == [t |-> RZero, bounds |-> <<>>, psd |-> <<>>]
RecOn(s) == [s EXCEPT !.recording = TRUE, !.rec = <<ZeroRow>>, !.hasRec = TRUE]
RecOff(s) == [s EXCEPT !.recording = FALSE]
RecReset(s) == IF s.recording THEN [s EXCEPT !.rec = <<ZeroRow>>, !.hasRec = TRUE] ELSE [s EXCEPT !.rec = <<>>, !.hasRec = FALSE]
RecRemove(s) == [s EXCEPT !.rec = <<>>, !.hasRec = FALSE]
(* recording that is still switched on after removeRecordedData starts a new record (initial row first) *)
Record(s, t) == IF ~s.recording THEN s
                ELSE LET base == IF s.hasRec THEN s.rec ELSE <<ZeroRow>>
                     IN  [s EXCEPT !.rec = Append(base, [t |-> t, bounds |-> s.bounds, psd |-> s.psd]), !.hasRec = TRUE]

(* UpdatePBMEuler(time, newN): populations below one particle are dropped, then the distribution is recorded.
   The drivers use a logical clock: the k-th update happens at time k. *)
Update(s, v) == LET s1 == [s EXCEPT !.psd = [i \in 1..Len(v) |-> IF RLt(v[i], ROne) THEN RZero ELSE v[i]], !.clock = s.clock + 1]
                IN  Record(s1, RI(s1.clock))

(* np.interp(x, xp, fp, left=0, right=0) *)
Interp0(x, xp, fp) == IF RLt(x, xp[1]) \/ RLt(xp[Len(xp)], x) THEN RZero ELSE Interp(x, xp, fp)
(* the recorded grid of row k (stated behaviour: exactly what was recorded; the initial row stands for the original empty grid) *)
Grab(s, k) == IF s.rec[k].bounds = <<>> THEN [bounds |-> Lin(s.omin, s.omax, s.obins), psd |-> Seq0(s.obins)]
              ELSE [bounds |-> s.rec[k].bounds, psd |-> s.rec[k].psd]
(* re-sample distribution a (psd on bounds ba) onto the grid bb, preserving its third moment *)
Resample(psd, ba, bb) ==
    LET oldV == Mom(psd, ba, 3)
        den == [i \in 1..Len(psd) |-> RDiv(psd[i], Wid(ba)[i])]
        raw == [i \in 1..(Len(bb) - 1) |-> RMul(Interp0(Mid(bb)[i], Mid(ba), den), Wid(bb)[i])]
        newV == Mom(raw, bb, 3)
    IN  IF newV # RZero THEN [i \in 1..(Len(bb) - 1) |-> RMul(raw[i], RDiv(oldV, newV))] ELSE Seq0(Len(bb) - 1)
SetGrid(s, bd, psd) == [s EXCEPT !.bounds = bd, !.psd = psd, !.bins = Len(psd), !.min = bd[1], !.max = bd[Len(bd)]]
(* setPSDtoRecordedTime(time) *)
SetToTime(s, t) ==
    IF ~s.recording \/ ~s.hasRec THEN s
    ELSE LET n == Len(s.rec)
         IN  IF RLe(t, s.rec[1].t) THEN SetGrid(s, Grab(s, 1).bounds, Grab(s, 1).psd)
             ELSE IF RLe(s.rec[n].t, t) THEN SetGrid(s, Grab(s, n).bounds, Grab(s, n).psd)
             ELSE LET u == CHOOSE k \in 2..n : RLt(t, s.rec[k].t) /\ \A j \in 1..(k - 1) : ~RLt(t, s.rec[j].t)
                      up == Grab(s, u)  lo == Grab(s, u - 1)
                      ut == s.rec[u].t  lt == s.rec[u - 1].t
                      big == Len(up.psd) >= Len(lo.psd)
                      bd == IF big THEN up.bounds ELSE lo.bounds
                      upsd == IF big THEN up.psd ELSE Resample(up.psd, up.bounds, lo.bounds)
                      lpsd == IF big THEN Resample(lo.psd, lo.bounds, up.bounds) ELSE lo.psd
                      w == RDiv(RSub(t, lt), RSub(ut, lt))
                  IN  SetGrid(s, bd, [i \in 1..Len(upsd) |-> RAdd(RMul(RSub(upsd[i], lpsd[i]), w), lpsd[i])])

Backup(s) == [s EXCEPT !.prevPsd = s.psd, !.prevBounds = s.bounds, !.backed = TRUE]
Revert(s) == [s EXCEPT !.psd = s.prevPsd, !.bounds = s.prevBounds, !.bins = Len(s.prevPsd),
                       !.min = s.prevBounds[1], !.max = s.prevBounds[Len(s.prevBounds)]]

(* LoadDistribution(data): np.histogram(data, bounds) -- half-open classes, the last one closed *)
InClass(s, x, i) == /\ RLe(s.bounds[i], x)
                    /\ (RLt(x, s.bounds[i + 1]) \/ (i = s.bins /\ REq(x, s.bounds[i + 1])))
Load(s, data) == [s EXCEPT !.psd = [i \in 1..s.bins |-> RI(Cardinality({q \in 1..Len(data) : InClass(s, data[q], i)}))]]
(* LoadDistributionFunction(f) with f(R) = c * R *)
LoadFn(s, c) == [s EXCEPT !.psd = [i \in 1..s.bins |-> RMul(c, Mid(s.bounds)[i])]]
(* NormalizeToMoment(order) *)
NormMoment(s, k) == LET tot == Mom(s.psd, s.bounds, k)
                    IN  IF tot = RZero THEN [s EXCEPT !.err = "ZeroDivision"]
                        ELSE [s EXCEPT !.psd = [i \in 1..s.bins |-> RDiv(s.psd[i], tot)]]

(* canned distributions handed to UpdatePBMEuler by the drivers (shared by the exploration and the evaluator) *)
Pattern(k, p) ==
    CASE p = 0 -> Seq0(k)
      [] p = 1 -> [i \in 1..k |-> RI(5)]
      [] p = 2 -> [i \in 1..k |-> IF i = 1 THEN RI(2) ELSE RZero]
      [] p = 3 -> [i \in 1..k |-> IF i = (k + 1) \div 2 THEN RI(5) ELSE IF i = k THEN R(1, 2) ELSE RZero]
      [] p = 4 -> [i \in 1..k |-> RI(i)]
      [] p = 5 -> [i \in 1..k |-> IF 4 * i <= k + 3 THEN RI(3) ELSE RZero]
      [] p = 6 -> [i \in 1..k |-> IF i = k THEN RI(7) ELSE RZero]


TestN(k) == [i \in 1..k |-> RI(3 * (i - 1) + 1)]
TestW(k) == [i \in 1..k |-> R(((i - 1) % 3) + 1, 2)]

Do(s, op) ==
    CASE op.op = "reset"   -> Reset(s, op.rb)
      [] op.op = "add"     -> AddClasses(s, op.k)
      [] op.op = "change"  -> ChangeClasses(s, op.a, op.b, op.n, op.reset)
      [] op.op = "adjust"  -> Adjust(s, op.chk)
      [] op.op = "update"  -> Update(s, op.v)
      [] op.op = "updatep" -> Update(s, Pattern(s.bins, op.p))
      [] op.op = "backup"  -> Backup(s)
      [] op.op = "revert"  -> Revert(s)
      [] op.op = "load"    -> Load(s, op.data)
      [] op.op = "loadfn"  -> LoadFn(s, op.c)
      [] op.op = "normalize" -> NormMoment(s, op.k)
      [] op.op = "selfupdate" -> Update(s, s.psd)          \* UpdatePBMEuler handed the model's own array
      [] op.op = "moments" -> s
      [] op.op = "recon"   -> RecOn(s)
      [] op.op = "recoff"  -> RecOff(s)
      [] op.op = "recreset" -> RecReset(s)
      [] op.op = "recremove" -> RecRemove(s)
      [] op.op = "settime" -> SetToTime(s, op.t)

(* moment functions on a supplied distribution: depend only on N and the grid *)
CumW(s, N, k, w, i) == RSumOver([q \in 1..Len(N) |-> RMul(RMul(N[q], RPowK(Mid(s.bounds)[q], k)), w[q])], 1..i)
Moments(s, N, w) ==
    [ m0 |-> Mom(N, s.bounds, 0), m1 |-> Mom(N, s.bounds, 1), m2 |-> Mom(N, s.bounds, 2), m3 |-> Mom(N, s.bounds, 3),
      cum3 |-> [i \in 1..Len(N) |-> CumW(s, N, 3, [q \in 1..Len(N) |-> ROne], i)],
      w1 |-> CumW(s, N, 1, w, Len(N)),
      cumw2 |-> [i \in 1..Len(N) |-> CumW(s, N, 2, w, i)] ]

(* ------------------------------ C08 clauses ------------------------------ *)
GridConsistent(s) ==
    /\ Len(s.bounds) = s.bins + 1 /\ Len(s.psd) = s.bins /\ s.bins >= 1
    /\ REq(s.bounds[1], s.min) /\ REq(s.bounds[s.bins + 1], s.max)
    /\ \A j \in 1..s.bins : RLt(s.bounds[j], s.bounds[j + 1])
    /\ \A i \in 1..s.bins : ~RLt(s.psd[i], RZero)

ExtendKeepsPrefix(s, t) ==      \* t = AddClasses(s, k)
    /\ \A j \in 1..(s.bins + 1) : REq(t.bounds[j], s.bounds[j])
    /\ \A i \in 1..s.bins : REq(t.psd[i], s.psd[i])
    /\ \A i \in (s.bins + 1)..t.bins : t.psd[i] = RZero

Covers(s, t) ==   \* the new grid of t covers every populated class of s
    \A i \in 1..s.bins : RLt(RZero, s.psd[i]) => RLe(t.min, s.bounds[i]) /\ RLe(s.bounds[i + 1], t.max)
RemeshKeepsThirdMoment(s, t) == Covers(s, t) => REq(Mom(t.psd, t.bounds, 3), Mom(s.psd, s.bounds, 3))
(* the named as-built deviation: every new class centre misses the (narrow) populated range *)
RemeshLosesSpike(s, t) == Mom(s.psd, s.bounds, 3) # RZero /\ Mom(t.psd, t.bounds, 3) = RZero

(* recording: one row per update while recording is on, times strictly increasing after the initial row; setting the
   distribution to the latest recorded time restores exactly what was recorded *)
RecordingSound(s) == s.hasRec /\ s.rec # <<>> =>
    /\ \A k \in 2..Len(s.rec) : RLt(s.rec[k - 1].t, s.rec[k].t) \/ s.rec[k - 1].bounds = <<>>
    /\ \A k \in 1..Len(s.rec) : s.rec[k].bounds = <<>> \/ Len(s.rec[k].bounds) = Len(s.rec[k].psd) + 1
SetToLastRestores(s, t) == s.recording /\ s.hasRec /\ Len(s.rec) >= 2 => t.bounds = s.rec[Len(s.rec)].bounds /\ t.psd = s.rec[Len(s.rec)].psd

AdaptiveBounded(s, t) == s.adaptive /\ s.minBins <= s.maxBins => t.bins <= s.maxBins
ResetRestores(s, t) == /\ t.min = s.omin /\ t.max = s.omax /\ t.bins = s.obins
                       /\ t.bounds = Lin(s.omin, s.omax, s.obins) /\ t.psd = Seq0(s.obins)
=============================================================================
