----------------------------- MODULE RungeKutta -----------------------------
(***************************************************************************)
(* C06.  The order of accuracy of an explicit Runge-Kutta method is a      *)
(* theorem about its Butcher tableau (A, b) *and* the times c at which the *)
(* stages are evaluated: for right-hand sides f(t, x) the autonomous order *)
(* conditions carry over exactly when c_i = sum_j A[i][j].                 *)
(* The tableau is not written down here: it is *extracted from the running *)
(* iterator* (unit-vector probe through DESolver._getdXdt/_updateX) and    *)
(* this module decides the clauses.  Each case is a record                 *)
(*   [name, order, S, A, b, ct, docA, docb, docc, intact]                  *)
(* with rationals as <<num, den>>.                                         *)
(***************************************************************************)
EXTENDS Rat, Json, IOUtils, TLC

Cases == JsonDeserialize(IOEnv.CASES)

Idx(c) == 1..c.S
Arow(c, i) == [j \in Idx(c) |-> c.A[i][j]]
RowSum(c, i) == RSumOver(Arow(c, i), Idx(c))
(* the abscissae implied by A: the only c for which autonomous order conditions transfer *)
CA(c) == [i \in Idx(c) |-> RowSum(c, i)]

Explicit(c) == \A i \in Idx(c), j \in Idx(c) : j >= i => c.A[i][j] = RZero
RowSumsMatchTimes(c) == \A i \in Idx(c) : REq(c.ct[i], CA(c)[i])
DocumentedTableau(c) == /\ \A i \in Idx(c), j \in Idx(c) : REq(c.A[i][j], c.docA[i][j])
                        /\ \A i \in Idx(c) : REq(c.b[i], c.docb[i])
DocumentedTimes(c) == \A i \in Idx(c) : REq(c.ct[i], c.docc[i])

Sum1(c, f) == RSumOver([i \in Idx(c) |-> f[i]], Idx(c))
Vec(c, F(_)) == [i \in Idx(c) |-> F(i)]
(* matrix-vector product A v *)
AV(c, v) == [i \in Idx(c) |-> RSumOver([j \in Idx(c) |-> RMul(c.A[i][j], v[j])], Idx(c))]
Had(c, u, v) == [i \in Idx(c) |-> RMul(u[i], v[i])]

(* order conditions are evaluated with the times the code actually uses (ct), which is what a
   non-autonomous problem sees, and with the row sums (what an autonomous problem sees) *)
Order1(c, cc) == REq(Sum1(c, c.b), ROne)
Order2(c, cc) == REq(Sum1(c, Had(c, c.b, cc)), R(1, 2))
Order3(c, cc) == /\ REq(Sum1(c, Had(c, c.b, Had(c, cc, cc))), R(1, 3))
                 /\ REq(Sum1(c, Had(c, c.b, AV(c, cc))), R(1, 6))
Order4(c, cc) == /\ REq(Sum1(c, Had(c, c.b, Had(c, cc, Had(c, cc, cc)))), R(1, 4))
                 /\ REq(Sum1(c, Had(c, c.b, Had(c, cc, AV(c, cc)))), R(1, 8))
                 /\ REq(Sum1(c, Had(c, c.b, AV(c, Had(c, cc, cc)))), R(1, 12))
                 /\ REq(Sum1(c, Had(c, c.b, AV(c, AV(c, cc)))), R(1, 24))
OrderAtLeast(c, cc, p) == /\ (p >= 1 => Order1(c, cc))
                          /\ (p >= 2 => Order2(c, cc))
                          /\ (p >= 3 => Order3(c, cc))
                          /\ (p >= 4 => Order4(c, cc))
(* first condition of the next order fails: the method is not accidentally of higher order *)
NextOrderFails(c, cc) == CASE c.order = 1 -> ~Order2(c, cc)
                           [] c.order = 4 -> ~REq(Sum1(c, Had(c, c.b, Had(c, cc, Had(c, cc, Had(c, cc, cc))))), R(1, 5))
                           [] OTHER -> TRUE

(* one step of x' = t^3 from t0 with step h, as the *documented* method computes it *)
Cube(r) == RMul(r, RMul(r, r))
Quad(c, t0, h) == RMul(h, RSumOver([i \in Idx(c) |-> RMul(c.docb[i], Cube(RAdd(t0, RMul(c.docc[i], h))))], Idx(c)))
(* several consecutive steps hs[1], hs[2], ... (the solver shortens the last one so that it lands on the requested end time) *)
RECURSIVE QuadSteps(_, _, _)
QuadSteps(c, t0, hs) == IF hs = <<>> THEN RZero ELSE RAdd(Quad(c, t0, Head(hs)), QuadSteps(c, RAdd(t0, Head(hs)), Tail(hs)))

Verdict(c) ==
    [ name |-> c.name,
      explicit |-> Explicit(c),
      rowSumsMatchTimes |-> RowSumsMatchTimes(c),
      orderAutonomous |-> OrderAtLeast(c, CA(c), c.order),
      orderNonAutonomous |-> OrderAtLeast(c, c.ct, c.order) /\ RowSumsMatchTimes(c),
      exactOrder |-> NextOrderFails(c, CA(c)),
      documentedTableau |-> DocumentedTableau(c),
      documentedTimes |-> DocumentedTimes(c),
      quadrature |-> \A q \in DOMAIN c.quad : REq(c.quad[q].obs, QuadSteps(c, c.quad[q].t0, c.quad[q].hs)),
      stateIntact |-> c.intact ]

ASSUME JsonSerialize(IOEnv.OUTF, [i \in 1..Len(Cases) |-> Verdict(Cases[i])])

(* self-check of the clauses on textbook methods (evaluated on every run) *)
H == R(1, 2)
Z == RZero
RK4c == [name |-> "rk4", order |-> 4, S |-> 4,
         A |-> << <<Z,Z,Z,Z>>, <<H,Z,Z,Z>>, <<Z,H,Z,Z>>, <<Z,Z,ROne,Z>> >>,
         b |-> << R(1,6), R(1,3), R(1,3), R(1,6) >>, ct |-> <<Z, H, H, ROne>>,
         docA |-> << <<Z,Z,Z,Z>>, <<H,Z,Z,Z>>, <<Z,H,Z,Z>>, <<Z,Z,ROne,Z>> >>,
         docb |-> << R(1,6), R(1,3), R(1,3), R(1,6) >>, docc |-> <<Z, H, H, ROne>>, intact |-> TRUE,
         quad |-> << [t0 |-> ROne, hs |-> <<H>>, obs |-> R(65, 64)] >>]
Heun == [RK4c EXCEPT !.order = 2, !.S = 2, !.A = << <<Z,Z>>, <<ROne,Z>> >>, !.b = <<H,H>>, !.ct = <<Z,ROne>>]
ASSUME LET v == Verdict(RK4c) IN v.explicit /\ v.rowSumsMatchTimes /\ v.orderAutonomous /\ v.orderNonAutonomous /\ v.exactOrder /\ v.quadrature
ASSUME OrderAtLeast(Heun, CA(Heun), 2) /\ ~OrderAtLeast(Heun, CA(Heun), 3)
ASSUME ~Verdict([RK4c EXCEPT !.ct = <<Z,Z,Z,Z>>]).orderNonAutonomous
ASSUME ~Verdict([RK4c EXCEPT !.b = << R(1,4), R(1,4), R(1,4), R(1,4) >>]).orderAutonomous

VARIABLE x
Init == x = 0
Next == x' = x
=============================================================================
