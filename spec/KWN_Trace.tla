------------------------------ MODULE KWN_Trace ------------------------------
(* Trace acceptor for PrecipitateModel runs.  Every event is consumed (the step action is total);
   the clauses a step violates are accumulated in `fails`, tagged with the property they belong to. *)
EXTENDS KWN, Json, IOUtils, TLCExt, TLC
CONSTANT RefreshMode
Traces == JsonDeserialize(IOEnv.TRACES)
NT == Len(Traces)
VARIABLES tid, l, n, tabT, lastT, dTemp, fails, done
vars == <<tid, l, n, tabT, lastT, dTemp, fails, done>>
Tr == Traces[tid]
Ev == Tr[l]
I0 == Tr[1]
ASSUME \A i \in 1..NT : TLCSet(i, [l |-> 0, fails |-> {}])

TInit == /\ tid \in 1..NT /\ l = 2 /\ n = 0
         /\ tabT = [p \in 1..Traces[tid][1].P |-> Traces[tid][1].T0]
         /\ lastT = Traces[tid][1].T0 /\ dTemp = 0 /\ fails = {} /\ done = FALSE

(* apply the table builds logged during the step, in order *)
RECURSIVE ApplyBuilt(_, _, _)
ApplyBuilt(tab, b, i) == IF i > Len(b) THEN tab
                         ELSE ApplyBuilt(IF b[i][3] THEN [tab EXCEPT ![b[i][1]] = b[i][2]] ELSE tab, b, i + 1)
(* remember the first step at which each clause failed *)
Add(f, k) == fails \cup {<<c, k>> : c \in {c \in f : \A x \in fails : x[1] # c}}

TStep ==
    /\ l <= Len(Tr) /\ Ev.e = "step" /\ ~done
    /\ LET e == Ev
           rf == Refresh(RefreshMode, dTemp, e.T - lastT, I0.maxdT)
           tab1 == ApplyBuilt(tabT, e.built, 1)
           euler == I0.iter = "euler"
           binary == I0.E = 1
           anyFull == \E i \in 1..Len(e.built) : e.built[i][3]
           (* a table rebuilt for any reason (refresh rule or re-meshing) restarts the accumulator *)
           dT1 == IF RefreshMode = "fixed" /\ anyFull THEN 0 ELSE rf[2]
           fullAtT(p) == \E i \in 1..Len(e.built) : e.built[i][1] = p /\ e.built[i][3] /\ e.built[i][2] = e.T
           c13 ==    (IF binary /\ \E p \in 1..I0.P : Abs(e.T - tab1[p]) > I0.maxdT THEN {"C13:lookup-fresh"} ELSE {})
                \cup (IF binary /\ euler /\ rf[1] /\ \E p \in 1..I0.P : ~fullAtT(p) THEN {"C13:rebuild-when-due"} ELSE {})
                \cup (IF binary /\ euler /\ Abs(e.dTemp - dT1) > 2 THEN {"C13:dTemp-bookkeeping"} ELSE {})
           stale == \E p \in 1..I0.P : tab1[p] # e.T
           row == RowClauses(e, n + 1)
           (* the growth-sign law is exact only for a table computed at the current temperature; with a table that is older (but
              must still be within maxTempChange, C13) only classes further than 10 % from the critical radius are judged *)
           row1 == IF binary /\ stale THEN row \ {"C12:growth-sign-vs-Rcrit"} ELSE row      \* (the band clause is the coarser statement: kept as a finding of its own)
       IN  /\ fails' = Add(row1 \cup c13, e.n)
           /\ tabT' = tab1
           /\ dTemp' = IF binary /\ euler THEN dT1 ELSE e.dTemp
           /\ lastT' = e.T
    /\ n' = n + 1 /\ l' = l + 1 /\ UNCHANGED <<tid, done>>

TException == /\ l <= Len(Tr) /\ Ev.e \in {"exception", "misaligned"} /\ ~done
              /\ fails' = Add({"C03:no-internal-error"}, n) /\ done' = TRUE /\ l' = l + 1
              /\ UNCHANGED <<tid, n, tabT, lastT, dTemp>>
TDone == /\ l <= Len(Tr) /\ Ev.e = "done" /\ ~done
         /\ fails' = Add(IF Ev.n # n \/ Ev.rows # n THEN {"C03:histories-aligned"} ELSE {}, n)
         /\ done' = TRUE /\ l' = l + 1 /\ UNCHANGED <<tid, n, tabT, lastT, dTemp>>

TNext == TStep \/ TException \/ TDone
TSpec == TInit /\ [][TNext]_vars
Reached == TLCSet(tid, IF TLCGet(tid).l > l THEN TLCGet(tid) ELSE [l |-> l, fails |-> fails])
Report == JsonSerialize(IOEnv.OUTF, [i \in 1..NT |-> TLCGet(i)])
=============================================================================
