------------------------------ MODULE Shape_Eval ------------------------------
(* TLC as evaluator of the transcribed bisection: one result per case [rs, rm, a, b, tol] (rationals as <<num, den>>) *)
EXTENDS Bisect, Json, IOUtils, TLC
Cases == JsonDeserialize(IOEnv.CASES)
Q(v) == <<v[1], v[2]>>
(* without a bracketed root the loop runs its 100 halvings (denominators 2^100): outside the property and outside 32-bit integers, not evaluated *)
Eval(c) == IF ~Bracketed(Q(c.rs), Q(c.rm), Q(c.a), Q(c.b)) THEN [r |-> <<0, 1>>, n |-> -1, gaveup |-> FALSE, bracketed |-> FALSE, rootok |-> TRUE]
           ELSE LET res == FindRcrit(Q(c.rs), Q(c.rm), Q(c.a), Q(c.b), Q(c.tol))
                IN  [r |-> res.r, n |-> res.n, gaveup |-> res.gaveup, bracketed |-> TRUE,
                     rootok |-> RootFound(Q(c.rs), Q(c.rm), Q(c.a), Q(c.b), Q(c.tol))]
ASSUME JsonSerialize(IOEnv.OUTF, [i \in 1..Len(Cases) |-> Eval(Cases[i])])
VARIABLE x
Init == x = 0
Next == x' = x
=============================================================================
