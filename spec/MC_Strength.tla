----------------------------- MODULE MC_Strength -----------------------------
EXTENDS Strength, TLC
CONSTANTS OrowanRule, NB
VARIABLES weak, strong, orowan, g, z, ph
Vals == { V("num", -2), V("num", 0), V("num", 1), V("num", 3), V("nan", 0), V("pinf", 0), V("ninf", 0) }
Init == /\ weak \in [1..NB -> Vals] /\ strong = [i \in 1..NB |-> V("num", 0)] /\ orowan = V("num", 0) /\ g = 0 /\ z = 0 /\ ph = 0
Choose == /\ ph = 0 /\ ph' = 1 /\ strong' \in [1..NB -> Vals] /\ orowan' \in Vals /\ g' \in -3..3 /\ z' \in 0..4 /\ UNCHANGED weak
Next == Choose
InvNonNegative == NonNegative(weak, strong, orowan, 2, OrowanRule)
InvMinRule == IsMinRule(weak, strong, orowan, 2, OrowanRule)
InvTotal == \A s0 \in 0..2, ss \in 0..2 : TotalAtLeastParts(s0, ss, PrecStrength(weak, strong, orowan, 2, OrowanRule))
InvDrag == DragNeverReverses(g, z) /\ DragNeverAccelerates(g, z) /\ DragFreezes(<<g, -g, g - 1>>, z + 3)
=============================================================================
