------------------------------ MODULE Diffusion ------------------------------
(***************************************************************************)
(* kawin/diffusion/Diffusion.py + SinglePhase.py + DiffusionParameters.py  *)
(* (BoundaryConditions, CompositionProfile, DiffusionConstraints) driven   *)
(* by GenericModel.solve / DESolver, over exact rationals.                 *)
(*                                                                         *)
(* A model state is a record; Setup, Fluxes, Step, SolveCall are functions *)
(* on it, one per block of the code.  The environment is the scripted      *)
(* thermodynamics: interdiffusivity  D_ek(x, T) = Tm(T) * (A_ek + B_ek*x_1) *)
(* with rational A, B and Tm(1000) = 1, Tm(1100) = 2.                      *)
(*                                                                         *)
(* c (configuration): N nodes, E independent elements, z0, z1, build steps *)
(* per element, boundary conditions per element, minc, threshold, iter,    *)
(* A, B, tfield, calls (sequence of solve durations), mindt (dtmin frac).  *)
(***************************************************************************)
EXTENDS Rat, FiniteSets

Nodes(c) == 1..c.N
Els(c) == 1..c.E
Dz(c) == RDiv(RSub(c.z1, c.z0), RI(c.N - 1))
Z(c, i) == RAdd(c.z0, RMul(Dz(c), RI(i - 1)))

(* ---------------- CompositionProfile.buildProfile ---------------- *)
NearestNode(c, zv) ==   \* np.argmin(|z - zv|): first index attaining the minimum
    CHOOSE i \in Nodes(c) : /\ \A j \in Nodes(c) : RLe(RAbs(RSub(Z(c, i), zv)), RAbs(RSub(Z(c, j), zv)))
                            /\ \A j \in 1..(i - 1) : RLt(RAbs(RSub(Z(c, i), zv)), RAbs(RSub(Z(c, j), zv)))
InterpData(zv, zs, xs) ==   \* np.interp(z, zList, xList, xList[0], xList[-1])
    LET n == Len(zs)
    IN  IF RLt(zv, zs[1]) THEN xs[1]
        ELSE IF ~RLt(zv, zs[n]) THEN xs[n]
        ELSE LET i == CHOOSE i \in 1..(n - 1) : RLe(zs[i], zv) /\ RLt(zv, zs[i + 1])
             IN  RAdd(xs[i], RDiv(RMul(RSub(xs[i + 1], xs[i]), RSub(zv, zs[i])), RSub(zs[i + 1], zs[i])))
ApplyBuild(c, row, st) ==
    CASE st.k = "linear"  -> [i \in Nodes(c) |-> RAdd(st.l, RDiv(RMul(RSub(st.r, st.l), RI(i - 1)), RI(c.N - 1)))]
      [] st.k = "step"    -> [i \in Nodes(c) |-> IF RLe(Z(c, i), st.z) THEN st.l ELSE st.r]
      [] st.k = "single"  -> [i \in Nodes(c) |-> IF i = NearestNode(c, st.z) THEN st.v ELSE row[i]]
      [] st.k = "bounded" -> [i \in Nodes(c) |-> IF RLe(st.zl, Z(c, i)) /\ RLe(Z(c, i), st.zr) THEN st.v ELSE row[i]]
      [] st.k = "function" -> [i \in Nodes(c) |-> RAdd(st.a, RMul(st.b, Z(c, i)))]
      [] st.k = "profile" -> [i \in Nodes(c) |-> InterpData(Z(c, i), st.zs, st.xs)]
RECURSIVE BuildRow(_, _, _, _)
BuildRow(c, row, steps, k) == IF k > Len(steps) THEN row ELSE BuildRow(c, ApplyBuild(c, row, steps[k]), steps, k + 1)

(* ---------------- setup() ---------------- *)
InitState(c) == [x |-> [e \in Els(c) |-> [i \in Nodes(c) |-> RZero]], t |-> RZero, isSetup |-> FALSE,
                 rec |-> <<>>, err |-> ""]

ApplyBCInit(c, x) == [e \in Els(c) |-> [i \in Nodes(c) |->
    IF i = 1 /\ c.bc[e].lt = "comp" THEN c.bc[e].lv
    ELSE IF i = c.N /\ c.bc[e].rt = "comp" THEN c.bc[e].rv ELSE x[e][i]]]

Shift(c, x) == [e \in Els(c) |-> [i \in Nodes(c) |->
    LET v == IF RLt(c.minc, x[e][i]) THEN RSub(x[e][i], RMul(RI(c.E + 1), c.minc)) ELSE x[e][i]
    IN  IF RLt(v, c.minc) THEN c.minc ELSE v]]

ColSum(c, x, i) == RSumOver([e \in Els(c) |-> x[e][i]], Els(c))
MeshSum(c, row) == RSumOver(row, Nodes(c))

(* SetupMode: "everycall" = as built before the fix (shift + record on every solve), "once" = only when not set up *)
Setup(c, s, mode) ==
    LET x1 == IF s.isSetup THEN s.x
              ELSE ApplyBCInit(c, [e \in Els(c) |-> BuildRow(c, s.x[e], c.build[e], 1)])
    IN  IF \E i \in Nodes(c) : RLt(ROne, ColSum(c, x1, i)) THEN [s EXCEPT !.err = "Exception", !.x = x1]
        ELSE IF s.isSetup /\ mode = "once" THEN s
        ELSE LET x2 == Shift(c, x1)
             IN  [s EXCEPT !.x = x2, !.isSetup = TRUE, !.rec = Append(s.rec, [t |-> s.t, x |-> x2])]

(* ---------------- temperature field and scripted diffusivity ---------------- *)
Temp(c, i, t) ==
    CASE c.tfield = "const" -> 1000
      [] c.tfield = "node"  -> IF 2 * i <= c.N THEN 1000 ELSE 1100
      [] c.tfield = "time"  -> IF RLt(t, c.tswitch) THEN 1000 ELSE 1100
Tm(T) == IF T = 1100 THEN RI(2) ELSE ROne
DNode(c, x, i, t, e, k) == RMul(Tm(Temp(c, i, t)), RAdd(c.A[e][k], RMul(c.B[e][k], x[1][i])))
DMid(c, x, j, t, e, k) == RDiv(RAdd(DNode(c, x, j, t, e, k), DNode(c, x, j - 1, t, e, k)), RI(2))   \* face j between nodes j-1, j

(* ---------------- SinglePhaseModel._getFluxes ---------------- *)
(* faces 1..N+1; interior faces 2..N *)
InnerFlux(c, x, t, e, j) ==
    RNeg(RSumOver([k \in Els(c) |-> RMul(DMid(c, x, j, t, e, k), RDiv(RSub(x[k][j], x[k][j - 1]), Dz(c)))], Els(c)))
Fluxes(c, x, t) == [e \in Els(c) |-> [j \in 1..(c.N + 1) |->
    IF j = 1 THEN (IF c.bc[e].lt = "flux" THEN c.bc[e].lv ELSE InnerFlux(c, x, t, e, 2))
    ELSE IF j = c.N + 1 THEN (IF c.bc[e].rt = "flux" THEN c.bc[e].rv ELSE InnerFlux(c, x, t, e, c.N))
    ELSE InnerFlux(c, x, t, e, j)]]
MaxAbsD(c, x, t) ==
    LET S == {RAbs(DMid(c, x, j, t, e, k)) : j \in 2..c.N, e \in Els(c), k \in Els(c)}
    IN  CHOOSE m \in S : \A y \in S : RLe(y, m)
CurrDt(c, x, t) == RDiv(RMul(c.threshold, RMul(Dz(c), Dz(c))), MaxAbsD(c, x, t))
DXdt(c, fl) == [e \in Els(c) |-> [i \in Nodes(c) |-> RNeg(RDiv(RSub(fl[e][i + 1], fl[e][i]), Dz(c)))]]
Axpy(c, x, d, h) == [e \in Els(c) |-> [i \in Nodes(c) |-> RAdd(x[e][i], RMul(d[e][i], h))]]

Clip(c, x) == [e \in Els(c) |-> [i \in Nodes(c) |->
    IF RLt(x[e][i], c.minc) THEN c.minc ELSE IF RLt(RSub(ROne, c.minc), x[e][i]) THEN RSub(ROne, c.minc) ELSE x[e][i]]]

(* one solver step from (x, t) with the step clamp [dtmin, dtmaxcur]; returns the new profile, the step,
   the effective boundary fluxes and whether clipping changed anything *)
StepFrom(c, x, t, dtmin, dtmaxcur) ==
    LET f1 == Fluxes(c, x, t)
        prop == CurrDt(c, x, t)
        a == IF RLt(dtmin, prop) THEN prop ELSE dtmin
        dt == IF RLt(a, dtmaxcur) THEN a ELSE dtmaxcur
        half == RDiv(dt, RI(2))
    IN  IF c.iter = "euler"
          THEN LET raw == Axpy(c, x, DXdt(c, f1), dt)
               IN [x |-> Clip(c, raw), raw |-> raw, dt |-> dt,
                   jl |-> [e \in Els(c) |-> f1[e][1]], jr |-> [e \in Els(c) |-> f1[e][c.N + 1]]]
          ELSE LET k1 == DXdt(c, f1)
                   f2 == Fluxes(c, Axpy(c, x, k1, half), RAdd(t, half))
                   k2 == DXdt(c, f2)
                   f3 == Fluxes(c, Axpy(c, x, k2, half), RAdd(t, half))
                   k3 == DXdt(c, f3)
                   f4 == Fluxes(c, Axpy(c, x, k3, dt), RAdd(t, dt))
                   k4 == DXdt(c, f4)
                   ks == [e \in Els(c) |-> [i \in Nodes(c) |->
                            RDiv(RAdd(RAdd(k1[e][i], RMul(RI(2), k2[e][i])), RAdd(RMul(RI(2), k3[e][i]), k4[e][i])), RI(6))]]
                   w(e, j) == RDiv(RAdd(RAdd(f1[e][j], RMul(RI(2), f2[e][j])), RAdd(RMul(RI(2), f3[e][j]), f4[e][j])), RI(6))
                   raw == Axpy(c, x, ks, dt)
               IN [x |-> Clip(c, raw), raw |-> raw, dt |-> dt,
                   jl |-> [e \in Els(c) |-> w(e, 1)], jr |-> [e \in Els(c) |-> w(e, c.N + 1)]]

(* ---------------- C04 clauses, evaluated on every step ---------------- *)
Balance(c, x, st) == \A e \in Els(c) :
    st.x # st.raw \/ REq(RSub(MeshSum(c, st.x[e]), MeshSum(c, x[e])), RDiv(RMul(RSub(st.jl[e], st.jr[e]), st.dt), Dz(c)))
ClosedConstant(c, x, st) == \A e \in Els(c) :
    (c.bc[e].lt = "flux" /\ c.bc[e].lv = RZero /\ c.bc[e].rt = "flux" /\ c.bc[e].rv = RZero /\ st.x = st.raw)
        => REq(MeshSum(c, st.x[e]), MeshSum(c, x[e]))
DirichletFixed(c, x, st) == \A e \in Els(c) :
    /\ (c.bc[e].lt = "comp" => st.x[e][1] = x[e][1])
    /\ (c.bc[e].rt = "comp" => st.x[e][c.N] = x[e][c.N])
Bounds(c, x) == \A e \in Els(c), i \in Nodes(c) : RLe(c.minc, x[e][i]) /\ RLe(x[e][i], RSub(ROne, c.minc))

(* ---------------- DESolver loop of one solve call ---------------- *)
RECURSIVE Loop(_, _, _, _, _, _)
Loop(c, s, tf, dtmin, dtmaxcur, fuel) ==
    IF ~RLt(s.t, tf) \/ fuel = 0 THEN s
    ELSE LET mx == IF RLt(RSub(tf, s.t), dtmaxcur) THEN RSub(tf, s.t) ELSE dtmaxcur
             st == StepFrom(c, s.x, s.t, dtmin, mx)
             t1 == RAdd(s.t, st.dt)
             ok == Balance(c, s.x, st) /\ ClosedConstant(c, s.x, st) /\ DirichletFixed(c, s.x, st) /\ Bounds(c, st.x)
             s1 == [s EXCEPT !.x = st.x, !.t = t1,
                             !.rec = Append(s.rec, [t |-> t1, x |-> st.x, ok |-> ok, clipped |-> st.x # st.raw,
                                                     jl |-> st.jl, jr |-> st.jr, dt |-> st.dt])]
         IN  Loop(c, s1, tf, dtmin, mx, fuel - 1)

SolveCall(c, s, span, mode) ==
    LET s0 == Setup(c, s, mode)
    IN  IF s0.err # "" THEN s0
        ELSE Loop(c, s0, RAdd(s0.t, span), RMul(c.mindt, span), span, c.fuel)

RECURSIVE RunCalls(_, _, _, _)
RunCalls(c, s, k, mode) == IF k > Len(c.calls) \/ s.err # "" THEN s ELSE RunCalls(c, SolveCall(c, s, c.calls[k], mode), k + 1, mode)
Run(c, mode) == RunCalls(c, InitState(c), 1, mode)

(* setMeshtoRecordedTime(time): the recorded profile nearest outside the range, linear interpolation between the two
   neighbouring records inside it *)
MeshAt(c, s, t) ==
    LET n == Len(s.rec)
    IN  IF RLt(t, s.rec[1].t) THEN s.rec[1].x
        ELSE IF RLt(s.rec[n].t, t) THEN s.rec[n].x
        ELSE IF \A k \in 1..n : ~RLt(t, s.rec[k].t) THEN s.rec[n].x          \* t equals the last time: argmax of an all-False mask is 0 in the code, see note
        ELSE LET u == CHOOSE k \in 1..n : RLt(t, s.rec[k].t) /\ \A j \in 1..(k - 1) : ~RLt(t, s.rec[j].t)
                 w == RDiv(RSub(t, s.rec[u - 1].t), RSub(s.rec[u].t, s.rec[u - 1].t))
             IN  [e \in Els(c) |-> [i \in Nodes(c) |-> RAdd(RMul(RSub(s.rec[u].x[e][i], s.rec[u - 1].x[e][i]), w), s.rec[u - 1].x[e][i])]]

(* closed-system invariance across the whole run, including the hand-over between solve calls *)
ClosedAcrossRun(c, s) == \A e \in Els(c) :
    (c.bc[e].lt = "flux" /\ c.bc[e].lv = RZero /\ c.bc[e].rt = "flux" /\ c.bc[e].rv = RZero
       /\ \A k \in 1..Len(s.rec) : ("clipped" \in DOMAIN s.rec[k] => ~s.rec[k].clipped))
    => \A k \in 1..Len(s.rec) : REq(MeshSum(c, s.rec[k].x[e]), MeshSum(c, s.rec[1].x[e]))
DirichletAcrossRun(c, s) == \A e \in Els(c), k \in 1..Len(s.rec) :
    /\ (c.bc[e].lt = "comp" => s.rec[k].x[e][1] = s.rec[1].x[e][1])
    /\ (c.bc[e].rt = "comp" => s.rec[k].x[e][c.N] = s.rec[1].x[e][c.N])
StepsOK(s) == \A k \in 1..Len(s.rec) : ("ok" \in DOMAIN s.rec[k] => s.rec[k].ok)
TimesIncrease(s) == \A k \in 2..Len(s.rec) : RLt(s.rec[k - 1].t, s.rec[k].t)
=============================================================================
