INIT Init
NEXT Next
