--------------------------- MODULE MC_PBMTransport ---------------------------
(* Exhaustive check of the C07 clauses on the transcription: every distribution, growth field,
   nucleation term and step size of the small domain is one initial state. *)
EXTENDS PBMTransport, TLC
CONSTANTS K, Pops, Grows, Rates, Dts, Mode, Grids
VARIABLES grid, n, g, rate, rpos, dt, ph

GrowsDef == {-2, -1, 0, 1, 2}
GrowsSmall == {-2, 0, 1}
(* grids: <<min, width-numerator, width-denominator>> : bounds b_j = min + (j-1)*w *)
GridsDef == { <<1, 1, 1>>, <<2, 2, 1>>, <<1, 1, 2>> }
GridsQ == { <<1, 1, 2>> }
GridsT == { <<1, 1, 1>>, <<2, 2, 1>> }      \* the thorough tier explores these two; with the quick tier's grid that is GridsDef (one run over all three took 35-50 min)
Bounds(gr) == [j \in 1..(K + 1) |-> RAdd(RI(gr[1]), RMul(RI(j - 1), R(gr[2], gr[3])))]
b == Bounds(grid)
(* nucleation radius positions: 0 = below the grid, 2i-1 = lower bound of class i, 2i = interior of class i,
   2K+1 = upper bound of the grid, 2K+2 = above *)
RPos == 0..(2 * K + 2)
Radius(p) == IF p = 0 THEN RSub(b[1], R(1, 2))
             ELSE IF p = 2 * K + 2 THEN RAdd(b[K + 1], ROne)
             ELSE IF p % 2 = 1 THEN b[(p + 1) \div 2]
             ELSE RAdd(b[p \div 2], RDiv(DR(b, p \div 2), RI(4)))
r == Radius(rpos)
Ratio == R(2, 5)
DtsDef == { R(1, 4), R(1, 2), RI(1), RI(4) }

(* the case space is enumerated in two levels so that TLC's workers share it: (grid, n) are initial
   states, (g, rate, radius, dt) are chosen by the single action Choose *)
Init == /\ grid \in Grids
        /\ n \in [1..K -> {RI(x) : x \in Pops}]
        /\ g = [j \in 1..(K + 1) |-> RZero]
        /\ rate = RZero /\ rpos = 1 /\ dt = ROne /\ ph = 0
(* the position of the nucleation radius only matters to the nucleation-class and sum clauses, which do not depend on the growth
   field or the step: the product is therefore explored as (every growth field x every step x two radius positions) plus
   (every radius position x a reduced growth alphabet x one step) *)
ChooseFlux == /\ ph = 0 /\ ph' = 1
              /\ g' \in [1..(K + 1) -> {RI(x) : x \in Grows}]
              /\ rate' \in {RI(x) : x \in Rates}
              /\ rpos' \in {1, 4}
              /\ dt' \in Dts
              /\ UNCHANGED <<grid, n>>
ChooseRadius == /\ ph = 0 /\ ph' = 1
                /\ g' \in [1..(K + 1) -> {RI(x) : x \in GrowsSmall}]
                /\ rate' \in {RI(x) : x \in Rates}
                /\ rpos' \in RPos
                /\ dt' = ROne
                /\ UNCHANGED <<grid, n>>
Choose == ChooseFlux \/ ChooseRadius
Next == Choose

nf == NetFlux(K, b, n, g)
nc == NucClassUsed(K, b, r, Mode)
dx == DXdt(K, nf, rate, nc)
nfc == Correct(K, nf, n, dt)
dxc == DXdt(K, nfc, rate, nc)

InvSumLaw == SumLaw(K, dx, nf, rate) /\ SumLaw(K, dxc, nfc, rate)
InvUpwind == Upwind(K, b, n, g, nf)
InvNucleationClass == NucleationClassOK(K, b, n, g, rate, r, Mode)
InvFaceLimit == FaceLimit(K, nfc, n, dt)
InvNoNegative == NoNegative(K, b, n, g, dxc, dt, Ratio)
InvStepLimit == \A d \in 0..(K - 1) : StepLimitOK(K, b, n, g, d, Ratio, RI(7))
(* all clauses with the shared terms computed once per state *)
InvAll ==
    LET nf0 == NetFlux(K, b, n, g)
        nc0 == NucClassUsed(K, b, r, Mode)
        dx0 == DXdt(K, nf0, rate, nc0)
        nfc0 == Correct(K, nf0, n, dt)
        dxc0 == DXdt(K, nfc0, rate, nc0)
    IN  /\ SumLaw(K, dx0, nf0, rate) /\ SumLaw(K, dxc0, nfc0, rate)
        /\ Upwind(K, b, n, g, nf0)
        /\ nc0 = NucClass(K, b, r)
        /\ FaceLimit(K, nfc0, n, dt)
        /\ NoNegative(K, b, n, g, dxc0, dt, Ratio)
        /\ (~RLt(rate, RZero) => TotalLimit(K, n, dxc0, dt))
        /\ (rpos = 1 /\ rate = RZero => \A d \in 0..(K - 1) : StepLimitOK(K, b, n, g, d, Ratio, RI(7)))
(* reachability companions (vacuity): these are *expected* to be violated *)
NeverCorrected == nfc = nf
NeverScaledBothFaces == nfc = CorrectPerFace(K, nf, n, dt)
(* the per-face correction alone (as built before the repair) lets the class that straddles the critical radius go negative *)
AsBuiltTotalLimit == ~RLt(rate, RZero) => TotalLimit(K, n, DXdt(K, CorrectPerFace(K, nf, n, dt), rate, nc), dt)
=============================================================================
