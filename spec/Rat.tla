-------------------------------- MODULE Rat --------------------------------
(* Exact rational arithmetic on normalised pairs <<num, den>>, den > 0.  TLC integers are 32 bit and
   TLC aborts on overflow, so an overflow can never silently change a verdict. *)
EXTENDS Integers, Sequences

Abs(x) == IF x < 0 THEN -x ELSE x
RECURSIVE Gcd(_, _)
Gcd(a, b) == IF b = 0 THEN a ELSE Gcd(b, a % b)

Norm(r) == LET s == IF r[2] < 0 THEN -1 ELSE 1
               g == Gcd(Abs(r[1]), Abs(r[2]))
           IN  IF r[1] = 0 THEN <<0, 1>> ELSE <<(s * r[1]) \div g, (s * r[2]) \div g>>
RI(n) == <<n, 1>>
RNeg(a) == <<-a[1], a[2]>>
R(n, d) == Norm(<<n, d>>)
RAdd(a, b) == LET g == Gcd(a[2], b[2]) IN Norm(<<a[1] * (b[2] \div g) + b[1] * (a[2] \div g), (a[2] \div g) * b[2]>>)
RSub(a, b) == RAdd(a, RNeg(b))

RMul(a, b) == LET g1 == Gcd(Abs(a[1]), b[2])  g2 == Gcd(Abs(b[1]), a[2])
                  p == IF g1 = 0 THEN 1 ELSE g1  q == IF g2 = 0 THEN 1 ELSE g2
              IN Norm(<<(a[1] \div p) * (b[1] \div q), (a[2] \div q) * (b[2] \div p)>>)
RInv(a) == Norm(<<a[2], a[1]>>)
RDiv(a, b) == RMul(a, RInv(b))
(* comparisons: integer parts first, then the sign of the difference (taken over the least common
   denominator, which keeps the intermediate products as small as exact arithmetic allows) *)
Fl(a) == a[1] \div a[2]
RLt(a, b) == IF Fl(a) # Fl(b) THEN Fl(a) < Fl(b) ELSE RSub(a, b)[1] < 0
REq(a, b) == Norm(a) = Norm(b)
RLe(a, b) == RLt(a, b) \/ REq(a, b)
RAbs(a) == <<Abs(a[1]), a[2]>>
RMin(a, b) == IF RLt(b, a) THEN b ELSE a
RMax(a, b) == IF RLt(a, b) THEN b ELSE a
RSign(a) == IF a[1] > 0 THEN 1 ELSE IF a[1] < 0 THEN -1 ELSE 0
RZero == <<0, 1>>
ROne == <<1, 1>>

RECURSIVE RSumSeq(_)
RSumSeq(s) == IF s = <<>> THEN RZero ELSE RAdd(Head(s), RSumSeq(Tail(s)))
(* sum of f[i] over a finite set of integer indices *)
RECURSIVE RSumOver(_, _)
RSumOver(f, S) == IF S = {} THEN RZero ELSE LET i == CHOOSE i \in S : TRUE IN RAdd(f[i], RSumOver(f, S \ {i}))
IsRat(r) == r \in Int \X Int /\ r[2] > 0
=============================================================================
