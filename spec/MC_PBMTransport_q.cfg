INIT Init
NEXT Next
CONSTANTS
  K = 3
  Pops = {0, 1, 5}
  Grows <- GrowsSmall
  Rates = {0, 3}
  Dts <- DtsDef
  Mode = "stated"
  Grids <- GridsDef
INVARIANT InvAll
