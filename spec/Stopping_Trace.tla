---------------------------- MODULE Stopping_Trace ----------------------------
(* Trace acceptor for stopping conditions on real PrecipitateModel runs.  The harness logs, per step and condition, whether
   the monitored value satisfies the inequality (computed from the recorded history), the object's isSatisfied() and where its
   satisfiedTime() lies relative to the step and to the linear interpolant; this module keeps its own latches with the same
   rule as Stopping.tla and accumulates the clauses an execution violates. *)
EXTENDS Integers, Sequences, FiniteSets, Json, IOUtils, TLCExt, TLC
CONSTANT PrevRule
Traces == JsonDeserialize(IOEnv.TRACES)
NT == Len(Traces)
VARIABLES tid, l, latched, prevHolds, over, fails
vars == <<tid, l, latched, prevHolds, over, fails>>
Tr == Traces[tid]
Ev == Tr[l]
I0 == Tr[1]
NC == Len(I0.conds)
ASSUME \A i \in 1..NT : TLCSet(i, [l |-> 0, fails |-> {}])
Add(f, k) == fails \cup {<<c, k>> : c \in {c \in f : \A x \in fails : x[1] # c}}

TInit == /\ tid \in 1..NT /\ l = 2
         /\ latched = [i \in 1..Len(Traces[tid][1].conds) |-> FALSE]
         /\ prevHolds = Traces[tid][1].holds0
         /\ over = FALSE /\ fails = {}

TStep ==
    /\ l <= Len(Tr) /\ Ev.e = "step"
    /\ LET e == Ev
           newly == [i \in 1..NC |-> ~latched[i] /\ e.c[i].holds]
           lat1 == [i \in 1..NC |-> latched[i] \/ newly[i]]
           ors == {i \in 1..NC : I0.conds[i].or}
           ands == {i \in 1..NC : ~I0.conds[i].or}
           stop == (\E i \in ors : lat1[i]) \/ (ands # {} /\ \A i \in ands : lat1[i])
           f ==    (IF \E i \in 1..NC : e.c[i].sat # lat1[i] THEN {"C19:latch"} ELSE {})
              \cup (IF \E i \in 1..NC : newly[i] /\ ~(e.c[i].tlo \in {"gt", "eq"} /\ e.c[i].thi \in {"lt", "eq"}) THEN {"C19:time-inside-step"} ELSE {})
              \cup (IF \E i \in 1..NC : newly[i] /\ ~prevHolds[i] /\ e.c[i].ti # "eq" THEN {"C19:time-is-interpolant"} ELSE {})
              \cup (IF \E i \in 1..NC : latched[i] /\ ~e.c[i].tsame THEN {"C19:time-frozen-once-met"} ELSE {})
              \cup (IF \E i \in 1..NC : ~lat1[i] /\ ~e.c[i].tneg THEN {"C19:time=-1-until-met"} ELSE {})
              \cup (IF \E i \in 1..NC : "reported" \in DOMAIN e.c[i] /\ ~(e.c[i].reported /\ (lat1[i] \/ e.c[i].repneg))
                      THEN {"C19:calculator-reports-satisfied-time-or--1"} ELSE {})
              \cup (IF stop /\ ~e.last THEN {"C19:stops-when-met"} ELSE {})
              \cup (IF e.last /\ ~stop /\ ~e.atEnd THEN {"C19:stops-only-when-met"} ELSE {})
              \cup (IF ~stop /\ e.last /\ e.atEnd /\ ~e.callEnd THEN {"C19:runs-to-end"} ELSE {})
       IN  /\ fails' = Add(f, e.n)
           /\ latched' = lat1
           /\ prevHolds' = [i \in 1..NC |-> e.c[i].holds]
           /\ over' = (stop /\ e.final)
    /\ l' = l + 1 /\ tid' = tid

TReset == /\ l <= Len(Tr) /\ Ev.e = "reset"
          /\ latched' = [i \in 1..NC |-> FALSE] /\ prevHolds' = Ev.holds0 /\ over' = FALSE
          /\ fails' = Add(IF \E i \in 1..NC : Ev.sat[i] \/ ~Ev.tcleared[i] THEN {"C19:reset-clears"} ELSE {}, 0)
          /\ l' = l + 1 /\ tid' = tid
TExc == /\ l <= Len(Tr) /\ Ev.e = "exception"
        /\ fails' = Add({"C19:no-internal-error"}, 0) /\ l' = l + 1 /\ UNCHANGED <<tid, latched, prevHolds, over>>
TDone == /\ l <= Len(Tr) /\ Ev.e = "done" /\ l' = l + 1 /\ UNCHANGED <<tid, latched, prevHolds, over, fails>>
TNext == TStep \/ TReset \/ TExc \/ TDone
TSpec == TInit /\ [][TNext]_vars
Reached == TLCSet(tid, IF TLCGet(tid).l > l THEN TLCGet(tid) ELSE [l |-> l, fails |-> fails])
Report == JsonSerialize(IOEnv.OUTF, [i \in 1..NT |-> TLCGet(i)])
=============================================================================
