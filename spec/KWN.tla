--------------------------------- MODULE KWN ---------------------------------
(***************************************************************************)
(* Abstract state machine of a PrecipitateModel run (kawin/precipitation/  *)
(* KWNBase.py, KWNEuler.py): what is decided per accepted step from        *)
(* discrete observations.  Real-valued identities enter as three-way       *)
(* comparisons ("lt","eq","gt") of two logged quantities under a fixed     *)
(* tolerance table; temperatures are integers (milli-kelvin).              *)
(*                                                                         *)
(* The lookup-refresh rule of _growthRateBinary is modelled explicitly     *)
(* (RefreshMode "asbuilt" | "fixed") so that TLC can explore it over all   *)
(* temperature paths (MC_KWN) and the trace acceptor (KWN_Trace) can       *)
(* predict when the table must be rebuilt.                                 *)
(***************************************************************************)
EXTENDS Integers, Sequences, FiniteSets

Abs(x) == IF x < 0 THEN -x ELSE x

(* ---- lookup refresh rule: returns <<rebuild?, dTemp'>> given the accumulated dTemp, the step's
        temperature change and the limit ---- *)
Refresh(mode, dTemp, dT, maxdT) ==
    LET acc == dTemp + dT
    IN  IF Abs(acc) > maxdT
          THEN <<TRUE, IF mode = "asbuilt" THEN acc ELSE 0>>     \* as built: not reset after a rebuild
          ELSE <<FALSE, IF mode = "asbuilt" THEN 0 ELSE acc>>    \* as built: reset although nothing was rebuilt

(* ---- clauses on one step record (see harness/kwn_drv.py: project) ---- *)
AllEq(s, v) == \A i \in 1..Len(s) : s[i] = v

PhaseClauses(q) ==
       (IF q.dens # "eq" THEN {"C02:density=M0"} ELSE {})
  \cup (IF q.ravg # "eq" THEN {"C02:Ravg=M1/M0"} ELSE {})
  \cup (IF q.vf # "eq" THEN {"C02:volFrac=rvM3"} ELSE {})
  \cup (IF "denslaw" \in DOMAIN q /\ q.denslaw \notin {"lt", "eq"} THEN {"C02:density-law"} ELSE {})
  \cup (IF "densdouble" \in DOMAIN q /\ q.densdouble THEN {"C02:density-law(coarse: doubled in one step beyond nucleation)"} ELSE {})
  \cup (IF ~AllEq(q.fconc, "eq") THEN {"C01:fconc=weighted-M3"} ELSE {})
  \cup (IF "xbtab" \in DOMAIN q /\ ~q.xbtab THEN {"C01:precipitate-composition-of-a-size-class=backend(this phase)"} ELSE {})
  \cup (IF ~q.removed01 THEN {"C02:removed-classes-hold-[0,1)"} ELSE {})
  \cup (IF ~q.clipok THEN {"C02:stored=step-result-minus-classes-below-one"} ELSE {})
  \cup (IF ~q.psdnonneg THEN {"C03:psd>=0"} ELSE {})
  \cup (IF ~q.vfrange THEN {"C03:volFrac-in-[0,1]"} ELSE {})
  \cup (IF ~q.radnonneg THEN {"C03:radii>=0"} ELSE {})
  \cup (IF ~q.gridlen THEN {"C03:grid-arrays-aligned"} ELSE {})
  \cup (IF ~q.tablen THEN {"C03:lookup-table-aligned"} ELSE {})
  \cup (IF q.dgsign <= 0 /\ ~q.ratezero THEN {"C14:rate=0-when-dG<=0"} ELSE {})
  \cup (IF ~q.ratenonneg THEN {"C14:rate>=0"} ELSE {})
  \cup (IF \E i \in 1..Len(q.gsign) : (q.gsign[i][1] = "gt" /\ q.gsign[i][2] < 0) \/ (q.gsign[i][1] = "lt" /\ q.gsign[i][2] > 0)
          THEN {"C12:growth-sign-vs-Rcrit"} ELSE {})
  \cup (IF \E i \in 1..Len(q.gsignw) : (q.gsignw[i][1] = "gt" /\ q.gsignw[i][2] < 0) \/ (q.gsignw[i][1] = "lt" /\ q.gsignw[i][2] > 0)
          THEN {"C12:growth-sign-vs-Rcrit(10%-band)"} ELSE {})

RowClauses(e, nExpected) ==
       (IF e.n # nExpected \/ ~AllEq(e.lens, nExpected + 1) THEN {"C03:histories-aligned"} ELSE {})
  \cup (IF e.tcmp # "gt" THEN {"C03:time-increasing"} ELSE {})
  \cup (IF ~e.finite THEN {"C03:finite"} ELSE {})
  \cup (IF ~e.sumfv THEN {"C03:sum-volFrac<=1"} ELSE {})
  \cup (IF ~e.comprange THEN {"C03:composition-in-[0,1]"} ELSE {})
  \cup (IF e.Tsched # "eq" THEN {"C13:T=schedule(t)"} ELSE {})
  \cup (IF ~e.xeqfresh THEN {"C13:recorded-equilibrium-composition-fresh"} ELSE {})
  \cup (IF \E i \in 1..Len(e.mb) : e.mb[i].cmp # "eq" /\ ~e.mb[i].clamped THEN {"C01:mass-balance"} ELSE {})
  \cup (IF "end" \in DOMAIN e /\ e.end.tend # "eq" /\ ~("stopped" \in DOMAIN e.end /\ e.end.stopped) THEN {"C03:ends-at-requested-time"} ELSE {})
  \cup (IF "stalled" \in DOMAIN e /\ e.stalled THEN {"C03:reaches-the-requested-end-time(within a step budget far above what the run needs)"} ELSE {})
  \cup UNION {PhaseClauses(e.ph[p]) : p \in 1..Len(e.ph)}
=============================================================================
