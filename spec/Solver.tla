------------------------------- MODULE Solver -------------------------------
(***************************************************************************)
(* kawin/solver/Solver.py (DESolver.solve, _getdXdt, _updateX),            *)
(* kawin/solver/Iterators.py (ExplicitEulerIterator, RK4Iterator) and      *)
(* kawin/GenericModel.py (GenericModel.solve, Coupler) as one state        *)
(* machine.  One action per callback the solver makes into the model(s),   *)
(* plus the solver's own blocks (SolveBegin, LoopTest, ShrinkDtMax,        *)
(* Advance).                                                               *)
(*                                                                         *)
(* Time is counted in integer ticks.  The environment (the plugged-in      *)
(* model) is nondeterministic: what step it proposes (any number, NaN,     *)
(* +-inf), whether it asks to stop, and which state layout it returns from *)
(* postProcess.  The derivative the scripted model returns is the fixed    *)
(* time dependent field  f_j(t) = 2*j + 4*t  (j = flat index inside the    *)
(* model, t in ticks) so that stage times and slices are visible in the    *)
(* state values.                                                           *)
(***************************************************************************)
EXTENDS Integers, Sequences, FiniteSets, TLC

CONSTANTS
    NM,          \* number of coupled models (1 = a plain GenericModel)
    Iter,        \* "euler" | "rk4"
    Spans,       \* set of requested durations (ticks) for a solve call
    MinDens,     \* dtMin = span \div minDen   (minDtFrac = 1/minDen), minDen \in MinDens
    MaxDens,     \* dtMax = span \div maxDen   (maxDtFrac = 1/maxDen), maxDen \in MaxDens
    T0s,         \* set of model start times (ticks)
    Proposals,   \* set of step proposals  [k |-> "num"|"nan"|"pinf"|"ninf", v |-> Int]
    Layouts,     \* set of state layouts a model may supply: sequence of leaf shapes (seq of dims)
    MaxSolves,   \* bound on the number of solve calls
    MaxSteps,    \* bound on steps per solve call (state constraint only)
    StageTimes   \* "asbuilt" (all stages at t) | "documented" (t, t+dt/2, t+dt/2, t+dt)

VARIABLES
    pc,          \* "idle","setup","curx","loop","pre","shrink","f","getdt","c","advance","post","done"
    m,           \* model the next per-model callback goes to (1..NM)
    stage,       \* Runge-Kutta stage 1..4 (1 for Euler)
    clock,       \* solver's currTime
    t0, tEnd, dtMin, dtMaxCur, dtMax0,
    dt,          \* step chosen at the first stage
    props,       \* proposals collected from the models at the first stage (seq, one per model)
    stop,        \* accumulated stop flag of this step
    step,        \* accepted steps in this solve call
    solves,      \* number of solve calls started
    layout,      \* layout[i]: layout model i currently supplies
    xs,          \* xs[i]: flat state of model i at the start of the step (ints)
    xarg,        \* xarg[i]: flat state handed to model i's callbacks in the current stage
    ksum,        \* accumulated stage derivatives (rk4), per model flat vector, times 1 (sum k1+2k2+2k3+k4)
    klast,       \* derivative returned at the current stage
    mtime,       \* model-side record of time (what getCurrentX returns)
    req          \* arguments of the solve call in progress: <<span, minDen, maxDen>>

vars == <<pc, m, stage, clock, t0, tEnd, dtMin, dtMaxCur, dtMax0, dt, props, stop, step, solves,
          layout, xs, xarg, ksum, klast, mtime, req>>

Models == 1..NM
NStages == IF Iter = "rk4" THEN 4 ELSE 1

RECURSIVE Prod(_)
Prod(s) == IF s = <<>> THEN 1 ELSE Head(s) * Prod(Tail(s))
RECURSIVE FlatLen(_)
FlatLen(lay) == IF lay = <<>> THEN 0 ELSE Prod(Head(lay)) + FlatLen(Tail(lay))

P(k, v) == [k |-> k, v |-> v]

(* np.amin over the models' proposals: NaN poisons, otherwise the least *)
IsNum(p) == p.k = "num"
Less(p, q) ==  \* p < q in IEEE order for non-NaN p, q
    \/ p.k = "ninf" /\ q.k # "ninf"
    \/ p.k = "num" /\ q.k = "pinf"
    \/ p.k = "num" /\ q.k = "num" /\ p.v < q.v
AMin(ps) == IF \E i \in DOMAIN ps : ps[i].k = "nan" THEN P("nan", 0)
            ELSE CHOOSE p \in {ps[i] : i \in DOMAIN ps} : \A i \in DOMAIN ps : ~Less(ps[i], p)

(* DESolver._getdXdt:  dt = dt if dt > dtmin else dtmin ; dt = dt if dt < dtmax else dtmax *)
Clamp(p, lo, hi) ==
    LET a == IF p.k = "pinf" THEN p
             ELSE IF p.k = "num" /\ p.v > lo THEN p ELSE P("num", lo)
    IN  IF a.k = "num" /\ a.v < hi THEN a.v ELSE hi

(* the scripted derivative field, in units where a half tick is representable: f_j(t2) with t2 = 2*t *)
F(j, t2) == 2 * j + 2 * t2
Deriv(i, t2) == [j \in 1..FlatLen(layout[i]) |-> F(j, t2)]

(* stage time, in half ticks *)
StageT2(k) ==
    IF StageTimes = "asbuilt" THEN 2 * clock
    ELSE CASE k = 1 -> 2 * clock
           [] k = 2 -> 2 * clock + dt
           [] k = 3 -> 2 * clock + dt
           [] k = 4 -> 2 * clock + 2 * dt

(* dt handed to correctdXdt / used in updateX at stage k, in half ticks *)
StageDt2(k) == IF Iter = "euler" THEN 2 * dt
               ELSE IF k \in {1, 2} THEN dt ELSE 2 * dt

InitX(lay) == [j \in 1..FlatLen(lay) |-> 100 * j]

InitWith(lays, start) ==
    /\ pc = "idle" /\ m = 1 /\ stage = 1 /\ clock = start
    /\ t0 = start /\ tEnd = start /\ dtMin = 0 /\ dtMaxCur = 0 /\ dtMax0 = 0 /\ dt = 0
    /\ props = <<>> /\ stop = FALSE /\ step = 0 /\ solves = 0
    /\ layout = lays
    /\ xs = [i \in Models |-> InitX(lays[i])]
    /\ xarg = xs /\ ksum = xs /\ klast = xs
    /\ mtime = start /\ req = <<0, 1, 1>>

Init == \E lays \in [Models -> Layouts], start \in T0s : InitWith(lays, start)

(* ---- GenericModel.solve: setup(), getCurrentX(), setTimeInfo, DESolver.solve prologue ---- *)
SolveCall(span, minDen, maxDen) ==
    /\ pc = "idle" /\ solves < MaxSolves
    /\ pc' = "setup" /\ m' = 1 /\ solves' = solves + 1 /\ req' = <<span, minDen, maxDen>>
    /\ UNCHANGED <<stage, clock, t0, tEnd, dtMin, dtMaxCur, dtMax0, dt, props, stop, step, layout, xs, xarg, ksum, klast, mtime>>

Setup ==   \* model m's setup()
    /\ pc = "setup"
    /\ IF m < NM THEN m' = m + 1 /\ pc' = pc ELSE m' = 1 /\ pc' = "curx"
    /\ UNCHANGED <<stage, clock, t0, tEnd, dtMin, dtMaxCur, dtMax0, dt, props, stop, step, solves, layout, xs, xarg, ksum, klast, mtime, req>>

CurrentX ==  \* model m's getCurrentX(); after the last one the solver starts
    /\ pc = "curx"
    /\ IF m < NM THEN m' = m + 1 /\ pc' = pc ELSE m' = 1 /\ pc' = "begin"
    /\ UNCHANGED <<stage, clock, t0, tEnd, dtMin, dtMaxCur, dtMax0, dt, props, stop, step, solves, layout, xs, xarg, ksum, klast, mtime, req>>

SolveBegin ==
    /\ pc = "begin"
    /\ clock' = mtime /\ t0' = mtime /\ tEnd' = mtime + req[1]
    /\ dtMin' = req[1] \div req[2] /\ dtMaxCur' = req[1] \div req[3] /\ dtMax0' = req[1] \div req[3]
    /\ step' = 0 /\ stop' = FALSE /\ pc' = "loop"
    /\ UNCHANGED <<m, stage, dt, props, solves, layout, xs, xarg, ksum, klast, mtime, req>>

LoopTest ==
    /\ pc = "loop"
    /\ pc' = IF clock < tEnd /\ ~stop THEN "pre" ELSE "idle"
    /\ m' = 1
    /\ UNCHANGED <<stage, clock, t0, tEnd, dtMin, dtMaxCur, dtMax0, dt, props, stop, step, solves, layout, xs, xarg, ksum, klast, mtime, req>>

PreProcess ==   \* model m's preProcess()
    /\ pc = "pre"
    /\ IF m < NM THEN m' = m + 1 /\ pc' = pc ELSE m' = 1 /\ pc' = "shrink"
    /\ UNCHANGED <<stage, clock, t0, tEnd, dtMin, dtMaxCur, dtMax0, dt, props, stop, step, solves, layout, xs, xarg, ksum, klast, mtime, req>>

ShrinkDtMax ==
    /\ pc = "shrink"
    /\ dtMaxCur' = IF dtMaxCur > tEnd - clock THEN tEnd - clock ELSE dtMaxCur
    /\ pc' = "f" /\ stage' = 1 /\ m' = 1 /\ props' = <<>>
    /\ xarg' = xs
    /\ stop' = FALSE
    /\ UNCHANGED <<clock, t0, tEnd, dtMin, dtMax0, dt, step, solves, layout, xs, ksum, klast, mtime, req>>

GetdXdt ==      \* model m's getdXdt(t_stage, xarg[m])
    /\ pc = "f"
    /\ klast' = [klast EXCEPT ![m] = Deriv(m, StageT2(stage))]
    /\ IF m < NM THEN m' = m + 1 /\ pc' = pc
       ELSE m' = 1 /\ pc' = IF stage = 1 THEN "getdt" ELSE "c"
    /\ UNCHANGED <<stage, clock, t0, tEnd, dtMin, dtMaxCur, dtMax0, dt, props, stop, step, solves, layout, xs, xarg, ksum, mtime, req>>

GetDt(p) ==     \* model m's getDt(dXdt) at the first stage
    /\ pc = "getdt"
    /\ props' = Append(props, p)
    /\ IF m < NM THEN m' = m + 1 /\ pc' = pc /\ dt' = dt
       ELSE m' = 1 /\ pc' = "c" /\ dt' = Clamp(AMin(props'), dtMin, dtMaxCur)
    /\ UNCHANGED <<stage, clock, t0, tEnd, dtMin, dtMaxCur, dtMax0, stop, step, solves, layout, xs, xarg, ksum, klast, mtime, req>>

(* _updateX: correctdXdt on every model, then x_old + k*dt.                  *)
(* Euler: one update with dt.  RK4: k1,dt/2 ; k2,dt/2 ; k3,dt ; sum/6,dt.   *)
Weighted(i) == \* ksum after adding the current stage's k with its weight
    LET w == IF stage \in {2, 3} THEN 2 ELSE 1
    IN  IF stage = 1 THEN klast[i]
        ELSE [j \in DOMAIN klast[i] |-> ksum[i][j] + w * klast[i][j]]

Correct ==      \* model m's correctdXdt(dt_stage, x0, dXdt)
    /\ pc = "c"
    /\ IF m < NM THEN m' = m + 1 /\ pc' = pc /\ UNCHANGED <<stage, xarg, ksum>>
       ELSE /\ m' = 1
            /\ ksum' = [i \in Models |-> Weighted(i)]
            /\ IF stage < NStages
                 THEN /\ xarg' = [i \in Models |-> [j \in DOMAIN xs[i] |->
                                     xs[i][j] + (klast[i][j] * StageDt2(stage)) \div 2]]
                      /\ stage' = stage + 1 /\ pc' = "f"
                 ELSE /\ xarg' = [i \in Models |-> [j \in DOMAIN xs[i] |->
                                     IF Iter = "euler"
                                       THEN xs[i][j] + klast[i][j] * dt
                                       ELSE xs[i][j] + (ksum'[i][j] * dt) \div 6]]
                      /\ stage' = stage /\ pc' = "advance"
    /\ UNCHANGED <<clock, t0, tEnd, dtMin, dtMaxCur, dtMax0, dt, props, stop, step, solves, layout, xs, klast, mtime, req>>

(* In RK4 the final updateX happens after the 4th derivative; the spec folds the "c" of stage 4 into that. *)

Advance ==
    /\ pc = "advance"
    /\ clock' = clock + dt
    /\ pc' = "post" /\ m' = 1
    /\ UNCHANGED <<stage, t0, tEnd, dtMin, dtMaxCur, dtMax0, dt, props, stop, step, solves, layout, xs, xarg, ksum, klast, mtime, req>>

PostProcess(s, lay) ==   \* model m's postProcess(clock, xarg[m]) returns (x with layout lay, stop s)
    /\ pc = "post"
    /\ stop' = (stop \/ s)
    /\ layout' = [layout EXCEPT ![m] = lay]
    /\ xs' = [xs EXCEPT ![m] = IF lay = layout[m] THEN xarg[m] ELSE InitX(lay)]
    /\ mtime' = clock
    /\ IF m < NM THEN m' = m + 1 /\ pc' = pc /\ step' = step
       ELSE m' = 1 /\ pc' = "loop" /\ step' = step + 1
    /\ UNCHANGED <<stage, clock, t0, tEnd, dtMin, dtMaxCur, dtMax0, dt, props, solves, xarg, ksum, klast, req>>

Next ==
    \/ (\E s \in Spans, a \in MinDens, b \in MaxDens : SolveCall(s, a, b))
    \/ Setup \/ CurrentX \/ SolveBegin
    \/ LoopTest \/ PreProcess \/ ShrinkDtMax \/ GetdXdt
    \/ (\E p \in Proposals : GetDt(p)) \/ Correct \/ Advance
    \/ (\E s \in BOOLEAN, lay \in Layouts : PostProcess(s, lay))

Spec == Init /\ [][Next]_vars
FairSpec == Spec /\ WF_vars(Next)

Bounded == step <= MaxSteps

(* ------------------------------ properties (C05) ------------------------------ *)
TypeOK ==
    /\ pc \in {"idle","setup","curx","begin","loop","pre","shrink","f","getdt","c","advance","post"}
    /\ m \in Models /\ stage \in 1..4 /\ clock \in Nat /\ dt \in Int

NeverExceedEnd == solves > 0 /\ pc # "begin" /\ pc # "setup" /\ pc # "curx" => clock <= tEnd

StrictlyIncreasing == [][clock' # clock /\ pc = "advance" => clock' > clock]_vars

(* every accepted step lies within [dtMin, dtMax0]; only the last step of a call may be shorter.
   With an ill-posed request (minDtFrac > maxDtFrac) no step can satisfy both bounds; the code lets the
   maximum win and the property only demands the upper bound there. *)
StepWithinFractions ==
    [][pc = "advance" => /\ dt <= dtMax0
                         /\ (dt >= dtMin \/ clock' = tEnd \/ dtMin > dtMax0)]_vars

(* a solve call that was not stopped by the model ends exactly at t0 + span *)
EndsExactly == [][pc = "loop" /\ pc' = "idle" /\ ~stop => clock = tEnd]_vars

(* a stop request ends the call at that very step: no further callback advances time *)
StopEndsRun == [][pc = "loop" /\ stop => pc' = "idle"]_vars

(* callbacks see the layout the model supplied: the flat argument has the layout's length *)
ShapesAgree == \A i \in Models :
    /\ Len(xs[i]) = FlatLen(layout[i])
    /\ (pc \in {"f", "getdt", "c", "advance"} \/ (pc = "post" /\ i >= m)) => Len(xarg[i]) = FlatLen(layout[i])

(* a call always terminates (needs dtMin >= 1 tick, i.e. minDtFrac > 0) *)
Terminates == [](pc = "begin" => <>(pc = "idle"))

(* the next solve call starts where the previous one ended *)
Continues == [][pc = "begin" => t0' = mtime]_vars
=============================================================================
