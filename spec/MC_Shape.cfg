SPECIFICATION Spec
CONSTANTS
  Kinds = {"sphere", "needle", "plate", "cubic"}
  Ars <- ArsDef
  MaxOps = 4
INVARIANT FinderMatches
INVARIANT ClippedAtOne
INVARIANT SphereIsUnit
