SPECIFICATION Spec
CONSTANTS
  VmAs = {"a1", "a2"}
  VmBs = {"b1", "b2"}
  Gammas = {"g1", "g2"}
  Sites = {"bulk", "dislocations", "grain boundaries", "grain edges", "grain corners"}
  Gbes = {"e1", "e2"}
  Grains = {"d1", "d2"}
  Disls = {"r1"}
  X0s = {"x1"}
  Bulks = {"auto", "n1"}
  Shapes = {"sphere", "needle2"}
  NPs = {1, 2}
  MaxOps = 4
  Mode = "fixed"
  Starts <- MCStarts
INVARIANT SetupIsCurrent
INVARIANT AlwaysAdmissible
PROPERTY NonInterference
PROPERTY PhaseIsolation
