----------------------------- MODULE MC_Stopping -----------------------------
EXTENDS Stopping
C(gt, thr, or, q) == [gt |-> gt, thr |-> thr, or |-> or, q |-> q]
CondsA == << C(TRUE, 3, TRUE, 1) >>
CondsB == << C(TRUE, 3, FALSE, 1), C(FALSE, 4, FALSE, 2) >>
CondsC == << C(TRUE, 4, TRUE, 1), C(FALSE, 3, FALSE, 2), C(TRUE, 3, FALSE, 1) >>
=============================================================================
