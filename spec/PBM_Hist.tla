------------------------------ MODULE PBM_Hist ------------------------------
(* Evaluator: runs an operation history through PBM!Do and writes the predicted public attributes
   after every operation (and the moment functions where asked), for comparison with the real object. *)
EXTENDS PBM, Json, IOUtils, TLC
Cases == JsonDeserialize(IOEnv.CASES)

View(s, op) ==
    [ bins |-> s.bins, min |-> s.min, max |-> s.max, bounds |-> s.bounds, size |-> Mid(s.bounds), psd |-> s.psd,
      err |-> s.err, consistent |-> (s.err # "" \/ GridConsistent(s)),
      hasRec |-> s.hasRec, rec |-> s.rec,
      m3 |-> Mom(s.psd, s.bounds, 3),
      moments |-> IF op.op = "moments" THEN Moments(s, TestN(s.bins), TestW(s.bins)) ELSE [none |-> TRUE] ]

RECURSIVE Run(_, _, _)
Run(s, ops, i) == IF i > Len(ops) \/ s.err # "" THEN <<>>
                  ELSE LET t == Do(s, ops[i]) IN <<View(t, ops[i])>> \o Run(t, ops, i + 1)

Eval(c) == LET g == c.cfg
               s0 == New(g.cmin, g.cmax, g.bins, g.minBins, g.maxBins, g.adaptive)
           IN  [init |-> View(s0, [op |-> "new"]), steps |-> Run(s0, c.ops, 1)]

ASSUME JsonSerialize(IOEnv.OUTF, [i \in 1..Len(Cases) |-> Eval(Cases[i])])
VARIABLE x
Init == x = 0
Next == x' = x
=============================================================================
