------------------------------- MODULE Strength -------------------------------
(***************************************************************************)
(* kawin/precipitation/coupling/Strength.py: how the branch values are      *)
(* clipped and combined (getStrengthContributions, combine..., total...),   *)
(* and kawin/precipitation/coupling/GrainGrowth.py: constrainedGrowth.      *)
(* A branch value is  [k |-> "num"|"nan"|"pinf"|"ninf", v |-> Int]  (what   *)
(* the physical formulas can produce: numbers, and non-finite values for    *)
(* zero radii / spacings).  Superposition exponent 1 keeps everything in    *)
(* the integers.                                                            *)
(***************************************************************************)
EXTENDS Integers, Sequences, FiniteSets

V(k, v) == [k |-> k, v |-> v]
IsNum(x) == x.k = "num"
(* weak / strong contributions: negative or non-finite -> 0 *)
Clip(x) == IF IsNum(x) /\ x.v >= 0 THEN x.v ELSE 0
(* Orowan: OrowanRule "asbuilt" clips only non-finite values, "nonneg" also negative ones (sub-core radii: log(2r/ri) < 0) *)
ClipOrowan(x, rule) == IF ~IsNum(x) THEN 0 ELSE IF rule = "nonneg" /\ x.v < 0 THEN 0 ELSE x.v
RECURSIVE SumSeq(_)
SumSeq(s) == IF s = <<>> THEN 0 ELSE Head(s) + SumSeq(Tail(s))
Min3(a, b, c) == IF a <= b /\ a <= c THEN a ELSE IF b <= c THEN b ELSE c

(* precipitate strength of one phase, exponent 1: Taylor factor times the smallest of the three branches *)
PrecStrength(weak, strong, orowan, M, rule) ==
    LET w == SumSeq([i \in 1..Len(weak) |-> Clip(weak[i])])
        s == SumSeq([i \in 1..Len(strong) |-> Clip(strong[i])])
        o == ClipOrowan(orowan, rule)
    IN  M * Min3(w, s, o)
Total(sigma0, ss, prec) == sigma0 + ss + prec            \* exponent 1

(* ---- C18 clauses ---- *)
NonNegative(weak, strong, orowan, M, rule) == PrecStrength(weak, strong, orowan, M, rule) >= 0
IsMinRule(weak, strong, orowan, M, rule) ==
    LET p == PrecStrength(weak, strong, orowan, M, rule)
    IN  \A i \in 1..Len(weak) : TRUE /\ p <= M * SumSeq([j \in 1..Len(weak) |-> Clip(weak[j])])
                                    /\ p <= M * SumSeq([j \in 1..Len(strong) |-> Clip(strong[j])])
TotalAtLeastParts(sigma0, ss, prec) == (sigma0 >= 0 /\ ss >= 0 /\ prec >= 0) =>
    Total(sigma0, ss, prec) >= sigma0 /\ Total(sigma0, ss, prec) >= ss /\ Total(sigma0, ss, prec) >= prec

(* ---- Zener drag: constrainedGrowth(g, z) with unit mobility ---- *)
Constrain(g, z) == IF g - z > 0 THEN g - z ELSE IF g + z < 0 THEN g + z ELSE 0
Sign(x) == IF x > 0 THEN 1 ELSE IF x < 0 THEN -1 ELSE 0
AbsI(x) == IF x < 0 THEN -x ELSE x
DragNeverReverses(g, z) == Sign(Constrain(g, z)) \in {0, Sign(g)}
DragNeverAccelerates(g, z) == AbsI(Constrain(g, z)) <= AbsI(g)
DragFreezes(gs, z) == (\A i \in 1..Len(gs) : AbsI(gs[i]) <= z) => \A i \in 1..Len(gs) : Constrain(gs[i], z) = 0
=============================================================================
