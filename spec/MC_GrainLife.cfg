SPECIFICATION Spec
CONSTANTS
  Dists = {"d1", "d2"}
  Spans = {1, 2}
  Drags = {0, 1}
  MaxOps = 5
  Mode = "fixed"
INVARIANT TypeOK
PROPERTY ClockIsSumSinceReset
PROPERTY ResetForgets
