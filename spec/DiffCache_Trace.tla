--------------------------- MODULE DiffCache_Trace ---------------------------
(* The composition cache AS THE DIFFUSION MODELS USE IT (C09, last sentence), validated against HashTable.tla.
   One flux evaluation of a model with N nodes is:  eval(points of nodes 1..N)  then, node by node and in order,
   get(point)  and -- on a miss --  call(point)  (the thermodynamics object is asked for exactly that composition and
   temperature)  followed by  add(point);  evalend  closes the evaluation.  The harness records the get/add events on
   the model's own HashTable object, the call events on the scripted thermodynamics object, and eval/evalend around the
   model's flux function.  A node that is never looked up, looked up under another node's key, or served without either
   a hit or a call, makes the trace unacceptable at that event. *)
EXTENDS HashTable, Json, IOUtils, TLCExt
Traces == JsonDeserialize(IOEnv.TRACES)
NT == Len(Traces)
VARIABLES tid, l, pending, awaiting
tvars == <<vars, tid, l, pending, awaiting>>
Tr == Traces[tid]
Ev == Tr[l]
IsEv(name) == l <= Len(Tr) /\ Ev.e = name /\ l' = l + 1 /\ tid' = tid /\ nops' = nops
ASSUME \A i \in 1..NT : TLCSet(i, 0)
TInit == tid \in 1..NT /\ l = 2 /\ Init /\ pending = <<>> /\ awaiting = "none"
Idle == pending = <<>> /\ awaiting = "none"
TNext == \/ IsEv("enable") /\ Idle /\ Enable(Ev.b) /\ UNCHANGED <<pending, awaiting>>
         \/ IsEv("sens") /\ Idle /\ SetSens(Ev.s) /\ UNCHANGED <<pending, awaiting>>
         \/ IsEv("clear") /\ Idle /\ Clear /\ UNCHANGED <<pending, awaiting>>
         \/ IsEv("eval") /\ Idle /\ pending' = Ev.pts /\ UNCHANGED <<vars, awaiting>>
         \/ IsEv("get") /\ pending # <<>> /\ awaiting = "none" /\ Ev.p = Head(pending)
                        /\ Retrieve(Ev.p) /\ Ev.hit = result'.hit /\ (Ev.hit => Ev.v = result'.v)
                        /\ pending' = (IF Ev.hit THEN Tail(pending) ELSE pending) /\ awaiting' = (IF Ev.hit THEN "none" ELSE "call")
         \/ IsEv("call") /\ awaiting = "call" /\ Ev.p = Head(pending) /\ awaiting' = "add" /\ UNCHANGED <<vars, pending>>
         \/ IsEv("add") /\ awaiting = "add" /\ Ev.p = Head(pending) /\ Add(Ev.p) /\ Ev.size = Cardinality(table')
                        /\ pending' = Tail(pending) /\ awaiting' = "none"
         \/ IsEv("evalend") /\ Idle /\ UNCHANGED <<vars, pending, awaiting>>
TSpec == TInit /\ [][TNext]_tvars
Reached == TLCSet(tid, IF TLCGet(tid) > l THEN TLCGet(tid) ELSE l)
Report == JsonSerialize(IOEnv.OUTF, [i \in 1..NT |-> TLCGet(i)])
=============================================================================
