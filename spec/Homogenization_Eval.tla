------------------------- MODULE Homogenization_Eval -------------------------
EXTENDS Homogenization, Json, IOUtils, TLC
Cases == JsonDeserialize(IOEnv.CASES)
Eval(c) == [avg |-> Avg(c), bounds |-> Bounds(c)]
ASSUME JsonSerialize(IOEnv.OUTF, [i \in 1..Len(Cases) |-> Eval(Cases[i])])
VARIABLE x
Init == x = 0
Next == x' = x
=============================================================================
