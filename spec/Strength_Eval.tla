---------------------------- MODULE Strength_Eval ----------------------------
EXTENDS Strength, Json, IOUtils, TLC
Cases == JsonDeserialize(IOEnv.CASES)
Rule == IOEnv.OROWANRULE
Eval(c) == IF c.kind = "combine"
             THEN [prec |-> PrecStrength(c.weak, c.strong, c.orowan, c.M, Rule),
                   total |-> Total(c.sigma0, c.ss, PrecStrength(c.weak, c.strong, c.orowan, c.M, Rule))]
             ELSE [cg |-> [i \in 1..Len(c.g) |-> Constrain(c.g[i], c.k * c.z)]]      \* drag term = alpha * M * gbe * z, the same prefactor k as the curvature-driven rate
ASSUME JsonSerialize(IOEnv.OUTF, [i \in 1..Len(Cases) |-> Eval(Cases[i])])
VARIABLE x
Init == x = 0
Next == x' = x
=============================================================================
