--------------------------------- MODULE Scan ---------------------------------
(***************************************************************************)
(* C12, ordered scans of the binary thermodynamic queries.  A scan visits   *)
(* an ascending grid (Gibbs-Thomson energies g, or matrix compositions x);  *)
(* the acceptor keeps a latch (precipitate reported unstable) and the       *)
(* relation of each value to its predecessor, logged by the harness as      *)
(* lt/eq/gt under a fixed tolerance.                                        *)
(***************************************************************************)
EXTENDS Integers, Sequences, FiniteSets, Json, IOUtils, TLCExt, TLC
Traces == JsonDeserialize(IOEnv.TRACES)
NT == Len(Traces)
VARIABLES tid, l, unstable, fails
vars == <<tid, l, unstable, fails>>
Tr == Traces[tid]
Ev == Tr[l]
ASSUME \A i \in 1..NT : TLCSet(i, [l |-> 0, fails |-> {}])
Add(f) == fails \cup {<<c, l>> : c \in {c \in f : \A x \in fails : x[1] # c}}
TInit == tid \in 1..NT /\ l = 2 /\ unstable = FALSE /\ fails = {}
(* interfacial composition over ascending g *)
TGibbs == /\ l <= Len(Tr) /\ Ev.e = "g"
          /\ LET f ==    (IF unstable /\ ~Ev.sentinel THEN {"C12:unstable-is-upward-closed"} ELSE {})
                    \cup (IF ~Ev.sentinel /\ Ev.vsprev = "lt" THEN {"C12:x_alpha-rises-with-g"} ELSE {})
                    \cup (IF ~Ev.sentinel /\ Ev.dgvsg # "eq" THEN {"C12:dG(x_alpha(g))=g"} ELSE {})
             IN fails' = Add(f)
          /\ unstable' = (unstable \/ Ev.sentinel) /\ l' = l + 1 /\ tid' = tid
(* driving force over ascending supersaturation *)
TSuper == /\ l <= Len(Tr) /\ Ev.e = "x"
          /\ LET f ==    (IF Ev.vsprev = "lt" THEN {"C12:dG-rises-with-supersaturation"} ELSE {})
                    \cup (IF Ev.side = "above" /\ Ev.sign < 0 THEN {"C12:dG>0-above-solvus"} ELSE {})
                    \cup (IF Ev.side = "below" /\ Ev.sign > 0 THEN {"C12:dG<0-below-solvus"} ELSE {})
                    \cup (IF ~Ev.methodsagree THEN {"C12:methods-agree-in-sign"} ELSE {})
             IN fails' = Add(f)
          /\ UNCHANGED unstable /\ l' = l + 1 /\ tid' = tid
TExc == /\ l <= Len(Tr) /\ Ev.e = "exception" /\ fails' = Add({"C12:no-internal-error"}) /\ UNCHANGED unstable /\ l' = l + 1 /\ tid' = tid
TNext == TGibbs \/ TSuper \/ TExc
TSpec == TInit /\ [][TNext]_vars
Reached == TLCSet(tid, IF TLCGet(tid).l > l THEN TLCGet(tid) ELSE [l |-> l, fails |-> fails])
Report == JsonSerialize(IOEnv.OUTF, [i \in 1..NT |-> TLCGet(i)])
=============================================================================
