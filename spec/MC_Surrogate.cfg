SPECIFICATION Spec
CONSTANTS
  Phases = {"beta", "gamma"}
  MaxOps = 4
INVARIANT DelegatesByName
INVARIANT TrainedIsLocal
PROPERTY TrainingMonotone
