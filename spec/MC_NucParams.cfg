SPECIFICATION Spec
CONSTANTS
  Gammas = {1, 2}
  GbEs = {0, 1}
  Sites = {"bulk", "gb", "edge"}
  Factors = {"GBk", "area", "volume", "removal", "arearemoval"}
  MaxOps = 5
INVARIANT ReadIsCurrent
INVARIANT CacheNeverStale
