SPECIFICATION Spec
CONSTANTS
  Points <- PointsDef
  Precisions = {1, 2, 3, 7}
  MaxOps = 4
INVARIANT HitSound
INVARIANT OneEntryPerKey
PROPERTY DisabledMisses
