-------------------------------- MODULE Equiv --------------------------------
(* Paired executions.  Two runs that the property declares equivalent (same schedule through constructor or setter,
   phases or elements listed in another order, a model and its saved-and-reloaded copy, ...) are compared item by item by
   the harness; each comparison is one event [e |-> "cmp", name, c] with c \in {"eq","lt","gt","nan","shape"}.  This module
   is the judge: an execution pair is accepted iff every comparison is "eq" (names listed in Allowed may differ). *)
EXTENDS Integers, Sequences, FiniteSets, Json, IOUtils, TLCExt, TLC
Traces == JsonDeserialize(IOEnv.TRACES)
NT == Len(Traces)
VARIABLES tid, l, fails
vars == <<tid, l, fails>>
Tr == Traces[tid]
Ev == Tr[l]
ASSUME \A i \in 1..NT : TLCSet(i, [l |-> 0, fails |-> {}])
TInit == tid \in 1..NT /\ l = 2 /\ fails = {}
Allowed == Tr[1].allowed
TCmp == /\ l <= Len(Tr) /\ Ev.e = "cmp"
        /\ fails' = IF Ev.c # "eq" /\ ~(\E i \in 1..Len(Allowed) : Allowed[i] = Ev.name) /\ Cardinality(fails) < 6
                      THEN fails \cup {<<Ev.name, Ev.c>>} ELSE fails
        /\ l' = l + 1 /\ tid' = tid
TExc == /\ l <= Len(Tr) /\ Ev.e = "exception"
        /\ fails' = fails \cup {<<"exception", Ev.msg>>} /\ l' = l + 1 /\ tid' = tid
TNext == TCmp \/ TExc
TSpec == TInit /\ [][TNext]_vars
Reached == TLCSet(tid, IF TLCGet(tid).l > l THEN TLCGet(tid) ELSE [l |-> l, fails |-> fails])
Report == JsonSerialize(IOEnv.OUTF, [i \in 1..NT |-> TLCGet(i)])
=============================================================================
