-------------------------- MODULE MC_Homogenization --------------------------
(* Exhaustive check of the C17 bound/ordering/permutation clauses on the transcription. *)
EXTENDS Homogenization, TLC
CONSTANTS NP, Mobs, Fracs
VARIABLES mob, frac, ph
MobsDef == { R(1, 64), R(1, 32), R(1, 16), R(1, 8) }
FracsDef == { RZero, R(1, 4), R(1, 2), R(3, 4), ROne }
Names == <<"P1", "P2", "P3", "P4">>
Init == /\ frac \in {f \in [1..NP -> Fracs] : RSumOver(f, 1..NP) = ROne}
        /\ mob = [p \in 1..NP |-> <<R(1, 64)>>] /\ ph = 0
Choose == ph = 0 /\ ph' = 1 /\ mob' \in [1..NP -> {<<m>> : m \in Mobs}] /\ UNCHANGED frac
Next == Choose
Case(perm) == [names |-> [p \in 1..NP |-> Names[perm[p]]], mob |-> [p \in 1..NP |-> mob[perm[p]]], frac |-> [p \in 1..NP |-> frac[perm[p]]],
               rule |-> "wu", labn |-> 1, post |-> [mode |-> "none", arg |-> ""]]
Id == [p \in 1..NP |-> p]
Perms == {f \in [1..NP -> 1..NP] : \A a, b \in 1..NP : a # b => f[a] # f[b]}
InvBounds == Bounds(Case(Id))
InvPermutation == \A pi \in Perms, r \in {"wu", "wl", "hu", "hl", "lab"} :
    Avg([Case(pi) EXCEPT !.rule = r, !.labn = 2]) = Avg([Case(Id) EXCEPT !.rule = r, !.labn = 2])
=============================================================================
