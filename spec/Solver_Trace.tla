---------------------------- MODULE Solver_Trace ----------------------------
(* Trace acceptor for Solver: every callback the real DESolver / GenericModel / Coupler made into
   scripted models is one event; silent solver blocks (SolveBegin, LoopTest, ShrinkDtMax, Advance)
   are composed in without consuming an event.  A batch of traces is validated in one TLC run;
   register tid holds the furthest event index reached for trace tid. *)
EXTENDS Solver, Json, IOUtils, TLCExt

Traces == JsonDeserialize(IOEnv.TRACES)
NT == Len(Traces)

VARIABLES tid, l
tvars == <<vars, tid, l>>

Tr == Traces[tid]
Ev == Tr[l]
IsEv(name) == l <= Len(Tr) /\ Ev.e = name /\ l' = l + 1 /\ tid' = tid
Silent == UNCHANGED <<tid, l>>

ASSUME \A i \in 1..NT : TLCSet(i, 0)

TInit == /\ tid \in 1..NT
         /\ l = 2
         /\ InitWith(Traces[tid][1].layouts, Traces[tid][1].t0)

TSolveCall == IsEv("solve") /\ SolveCall(Ev.span, Ev.minden, Ev.maxden)
TSetup     == IsEv("setup") /\ Ev.m = m /\ Setup
TCurX      == IsEv("curx") /\ Ev.m = m /\ Ev.lay = layout[m] /\ Ev.x = xs[m] /\ CurrentX
TPre       == IsEv("pre") /\ Ev.m = m /\ PreProcess
TF         == IsEv("f") /\ Ev.m = m /\ Ev.t2 = StageT2(stage) /\ Ev.x = xarg[m] /\ Ev.lay = layout[m] /\ GetdXdt
TGetDt     == IsEv("getdt") /\ Ev.m = m /\ Ev.d = klast[m] /\ GetDt(Ev.p)
TCorrect   == IsEv("c") /\ Ev.m = m /\ Ev.dt2 = StageDt2(stage) /\ Ev.lay = layout[m]
                 /\ Ev.x0 = xs[m] /\ Correct
TPost      == IsEv("post") /\ Ev.m = m /\ Ev.t = clock /\ Ev.x = xarg[m] /\ Ev.lay = layout[m]
                 /\ PostProcess(Ev.s, Ev.newlay)
TRet       == IsEv("ret") /\ pc = "idle" /\ Ev.t = mtime /\ UNCHANGED vars

TNext ==
    \/ TSolveCall \/ TSetup \/ TCurX \/ TPre \/ TF \/ TGetDt \/ TCorrect \/ TPost \/ TRet
    \/ (SolveBegin /\ Silent) \/ (LoopTest /\ Silent) \/ (ShrinkDtMax /\ Silent) \/ (Advance /\ Silent)

TSpec == TInit /\ [][TNext]_tvars

Reached == TLCSet(tid, IF TLCGet(tid) > l THEN TLCGet(tid) ELSE l)

Report == JsonSerialize(IOEnv.OUTF, [i \in 1..NT |-> TLCGet(i)])
=============================================================================
