--------------------------- MODULE Surrogate_Trace ---------------------------
EXTENDS Surrogate, Json, IOUtils, TLCExt
Traces == JsonDeserialize(IOEnv.TRACES)
NT == Len(Traces)
VARIABLES tid, l, fails
tvars == <<vars, tid, l, fails>>
Tr == Traces[tid]
Ev == Tr[l]
ASSUME \A i \in 1..NT : TLCSet(i, [l |-> 0, fails |-> {}])
Add(f) == fails \cup {<<c, l>> : c \in {c \in f : \A x \in fails : x[1] # c}}
TInit == tid \in 1..NT /\ l = 2 /\ fails = {} /\ Init
TTrain == /\ l <= Len(Tr) /\ Ev.e = "train" /\ Train(Ev.model, Ev.ph) /\ fails' = fails
TQuery == /\ l <= Len(Tr) /\ Ev.e = "query" /\ Query(Ev.q, Ev.ph)
          /\ LET a == Answer(Ev.q, Ev.ph, trained)
                 f ==    (IF a.kind = "delegated" /\ (Ev.nback # 1 \/ Ev.backend # a.backend) THEN {"C20:untrained-delegates-to-same-method"} ELSE {})
                    \cup (IF a.kind = "delegated" /\ Ev.nback = 1 /\ Ev.backend = a.backend /\ ~(Ev.argsame /\ Ev.valsame) THEN {"C20:delegation-passes-arguments-and-result"} ELSE {})
                    \cup (IF a.kind = "surrogate" /\ Ev.nback # 0 THEN {"C20:trained-does-not-use-backend"} ELSE {})
                    \cup (IF a.kind = "surrogate" /\ Ev.attrain /\ Ev.fit # "eq" THEN {"C20:trained-reproduces-training-data"} ELSE {})
             IN fails' = Add(f)
TReload == /\ l <= Len(Tr) /\ Ev.e = "reload" /\ SaveLoad
           /\ fails' = Add(IF Ev.same # "eq" THEN {"C20:reloaded-surrogate-same-predictions"} ELSE {})
TExc == /\ l <= Len(Tr) /\ Ev.e = "exception" /\ fails' = Add({"C20:no-internal-error"}) /\ UNCHANGED vars
TNextFix == \/ (TTrain /\ l' = l + 1 /\ tid' = tid /\ nops' = nops)
            \/ (TQuery /\ l' = l + 1 /\ tid' = tid /\ nops' = nops)
            \/ (TReload /\ l' = l + 1 /\ tid' = tid /\ nops' = nops)
            \/ (TExc /\ l' = l + 1 /\ tid' = tid)
TSpec == TInit /\ [][TNextFix]_tvars
Reached == TLCSet(tid, IF TLCGet(tid).l > l THEN TLCGet(tid) ELSE [l |-> l, fails |-> fails])
Report == JsonSerialize(IOEnv.OUTF, [i \in 1..NT |-> TLCGet(i)])
=============================================================================
