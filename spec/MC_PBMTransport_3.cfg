INIT Init
NEXT Next
CONSTANTS
  K = 3
  Pops = {0, 1, 2, 5}
  Grows <- GrowsDef
  Rates = {0, 3}
  Dts <- DtsDef
  Mode = "stated"
  Grids <- GridsDef
INVARIANT InvAll
