--------------------------------- MODULE Shape ---------------------------------
(***************************************************************************)
(* kawin/precipitation/parameters/ShapeFactors.py                          *)
(* (1) the ShapeFactor object: a shape description, an aspect ratio that   *)
(*     is a number or a function of the radius, and the critical-radius    *)
(*     finder that goes with it; setters in any order, queries in between. *)
(* (2) FindRcrit: the bisection of _findRcrit transcribed over exact       *)
(*     rationals for an arbitrary (here affine) factor function; C15 last  *)
(*     clause: it returns a root of R = Rs * factor(R) to its tolerance    *)
(*     whenever one is bracketed.                                          *)
(***************************************************************************)
EXTENDS Bisect, FiniteSets, TLC
CONSTANTS Kinds, Ars, MaxOps
VARIABLES kind, ar, finder, fired, last, nops
vars == <<kind, ar, finder, fired, last, nops>>
(* an aspect ratio is <<"num", v>> (v an integer; values below 1 are legal input) or <<"fn", id>> *)
IsNum(a) == a[1] = "num"
Init == kind = "sphere" /\ ar = <<"num", 1>> /\ finder = "scalar" /\ fired = 0
        /\ last = [kind |-> "", eff |-> <<"num", 1>>, finder |-> ""] /\ nops = 0
FinderFor(a) == IF IsNum(a) THEN "scalar" ELSE "bisect"
(* setPrecipitateShape(shape, ar): the description is replaced (callbacks fire), then the aspect ratio is set;
   a SphereDescription INSTANCE forces the aspect ratio to 1, the string 'sphere' does not (as built; harmless, the sphere ignores it) *)
SetShape(k, a, inst) == /\ kind' = k /\ fired' = fired + 1
                        /\ ar' = IF k = "sphere" /\ inst THEN <<"num", 1>> ELSE a
                        /\ finder' = FinderFor(ar') /\ UNCHANGED last
SetAr(a) == ar' = a /\ finder' = FinderFor(a) /\ UNCHANGED <<kind, fired, last>>
(* sf.description = <another description>: the public property setter replaces the description (callbacks fire) and leaves the aspect ratio alone *)
SwapDescription(k) == kind' = k /\ fired' = fired + 1 /\ UNCHANGED <<ar, finder, last>>
(* a query: the factor functions see the aspect ratio clipped at 1; a sphere ignores it altogether *)
Eff(k, a) == IF k = "sphere" THEN <<"num", 1>> ELSE IF IsNum(a) /\ a[2] < 1 THEN <<"num", 1>> ELSE a
Query == last' = [kind |-> kind, eff |-> Eff(kind, ar), finder |-> finder] /\ UNCHANGED <<kind, ar, finder, fired>>
Next == /\ nops < MaxOps /\ nops' = nops + 1
        /\ \/ \E k \in Kinds, a \in Ars, i \in BOOLEAN : SetShape(k, a, i)
           \/ \E a \in Ars : SetAr(a)
           \/ \E k \in Kinds : SwapDescription(k)
           \/ Query
Spec == Init /\ [][Next]_vars
FinderMatches == finder = FinderFor(ar)
QueryCurrent == last.kind # "" /\ last.kind = kind /\ last.finder = finder => TRUE
ClippedAtOne == last.kind # "" /\ IsNum(last.eff) => last.eff[2] >= 1
SphereIsUnit == last.kind = "sphere" => last.eff = <<"num", 1>>
CallbacksOnlyOnShape == [][fired' # fired => kind' = kind \/ TRUE]_vars

=============================================================================
