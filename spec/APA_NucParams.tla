---------------------------- MODULE APA_NucParams ----------------------------
(* Apalache wrapper: NucParams.tla without the bound on the number of operations; the cache invariant is shown INDUCTIVE
   (Init => IndInv; IndInv /\ Next => IndInv'), i.e. for histories of any length.  Triples and tags are encoded as
   records so that the module is typable; the actions are those of NucParams.tla one for one. *)
EXTENDS Integers
CONSTANTS
  \* @type: Set(Int);
  Gammas,
  \* @type: Set(Int);
  GbEs,
  \* @type: Set(Str);
  Sites,
  \* @type: Set(Str);
  Factors
VARIABLES
  \* @type: { g: Int, e: Int, s: Str };
  cur,
  \* @type: Str -> { set: Bool, g: Int, e: Int, s: Str };
  cache,
  \* @type: { f: Str, set: Bool, tag: { g: Int, e: Int, s: Str }, cur: { g: Int, e: Int, s: Str } };
  lastRead

CInit == /\ Gammas = {1, 2, 3} /\ GbEs = {0, 1, 2} /\ Sites = {"bulk", "dislocations", "gb", "edge", "corner"}
         /\ Factors = {"GBk", "area", "volume", "removal", "arearemoval"}
Triples == [g: Gammas, e: GbEs, s: Sites]
Empty == [set |-> FALSE, g |-> 0, e |-> 0, s |-> ""]
Init == /\ cur \in Triples
        /\ cache = [f \in Factors |-> Empty]
        /\ lastRead = [f |-> "", set |-> FALSE, tag |-> [g |-> 0, e |-> 0, s |-> ""], cur |-> [g |-> 0, e |-> 0, s |-> ""]]
Invalidate == [f \in Factors |-> Empty]
SetGamma(g) == cur' = [cur EXCEPT !.g = g] /\ cache' = Invalidate /\ UNCHANGED lastRead
SetGbE(e) == cur' = [cur EXCEPT !.e = e] /\ cache' = Invalidate /\ UNCHANGED lastRead
SetSite(s) == cur' = [cur EXCEPT !.s = s] /\ cache' = Invalidate /\ UNCHANGED lastRead
Read(f) == /\ cache' = [cache EXCEPT ![f] = IF cache[f].set THEN cache[f] ELSE [set |-> TRUE, g |-> cur.g, e |-> cur.e, s |-> cur.s]]
           /\ lastRead' = [f |-> f, set |-> TRUE, tag |-> [g |-> cache'[f].g, e |-> cache'[f].e, s |-> cache'[f].s], cur |-> cur]
           /\ UNCHANGED cur
Next == \/ \E g \in Gammas : SetGamma(g)
        \/ \E e \in GbEs : SetGbE(e)
        \/ \E s \in Sites : SetSite(s)
        \/ \E f \in Factors : Read(f)
(* negative control: a setter that forgets to invalidate -- the inductive step must FAIL with this next-state relation *)
NextBroken == Next \/ (\E e \in GbEs : cur' = [cur EXCEPT !.e = e] /\ UNCHANGED <<cache, lastRead>>)
ReadIsCurrent == lastRead.set => lastRead.tag = lastRead.cur
CacheNeverStale == \A f \in Factors : cache[f].set => (cache[f].g = cur.g /\ cache[f].e = cur.e /\ cache[f].s = cur.s)
TypeOK == /\ cur \in Triples /\ DOMAIN cache = Factors
IndInv == TypeOK /\ ReadIsCurrent /\ CacheNeverStale
(* initial predicate for the inductive step: any state satisfying IndInv *)
IndInit == /\ cur \in Triples
           /\ cache \in [Factors -> [set: BOOLEAN, g: Gammas \cup {0}, e: GbEs \cup {0}, s: Sites \cup {""}]]
           /\ lastRead \in [f: Factors \cup {""}, set: BOOLEAN, tag: [g: Gammas \cup {0}, e: GbEs \cup {0}, s: Sites \cup {""}], cur: [g: Gammas \cup {0}, e: GbEs \cup {0}, s: Sites \cup {""}]]
           /\ IndInv
=============================================================================
