------------------------------- MODULE SitePools -------------------------------
(***************************************************************************)
(* kawin/precipitation/parameters/Nucleation.py (NucleationSiteParameters) *)
(* and PrecipitationParameters.py (MatrixParameters.update): the pools of  *)
(* nucleation sites are DERIVED from the matrix molar volume, the initial   *)
(* composition, the grain size / aspect ratio and the dislocation density, *)
(* are cached after the first read, and the bulk pool can be overridden by  *)
(* the user.  Extension of C14 (the pools are what "available sites" start  *)
(* from): a read returns the pool of the CURRENT parameters, after any      *)
(* interleaving of setters and reads, and a user-defined bulk density is    *)
(* never overwritten by the automatic one.                                  *)
(* Mode = "asbuilt": changing the molar volume does not invalidate the      *)
(* cached dislocation / boundary / edge pools (VmAlpha is a plain           *)
(* attribute).                                                              *)
(***************************************************************************)
EXTENDS Integers, Sequences, FiniteSets, TLC
CONSTANTS Vms, X0s, Grains, Disls, Bulks, MaxOps, Mode
VARIABLES vm, x0, grain, disl, bulk, auto, cache, lastRead, nops
vars == <<vm, x0, grain, disl, bulk, auto, cache, lastRead, nops>>
None == 0
Pools == {"disl", "gbarea", "gbedge", "gbcorner"}
(* what a pool depends on *)
Stamp(p) == CASE p = "disl" -> <<vm, disl>>
              [] p \in {"gbarea", "gbedge"} -> <<vm, grain>>
              [] p = "gbcorner" -> <<0, grain>>          \* corners do not depend on the volume
Init == /\ vm = None /\ x0 = None /\ grain \in Grains /\ disl \in Disls
        /\ bulk = <<"unset">> /\ auto = TRUE
        /\ cache = [p \in Pools |-> <<>>] /\ lastRead = [p |-> "", got |-> <<>>, want |-> <<>>] /\ nops = 0
(* MatrixParameters.update(): pass the volume on, refresh the automatic bulk density once volume and composition are known *)
Update(v, x, au, b) == IF x # None /\ v # None /\ au THEN <<"auto", x, v>> ELSE b
SetVm(v) == /\ vm' = v /\ bulk' = Update(v, x0, auto, bulk)
            /\ cache' = IF Mode = "asbuilt" THEN cache ELSE [p \in Pools |-> IF p = "gbcorner" THEN cache[p] ELSE <<>>]
            /\ UNCHANGED <<x0, grain, disl, auto, lastRead>>
SetX0(x) == x0' = x /\ bulk' = Update(vm, x, auto, bulk) /\ UNCHANGED <<vm, grain, disl, auto, cache, lastRead>>
SetBulk(b) == bulk' = <<"user", b>> /\ auto' = FALSE /\ UNCHANGED <<vm, x0, grain, disl, cache, lastRead>>
SetGrain(g) == grain' = g /\ cache' = [cache EXCEPT !["gbarea"] = <<>>, !["gbedge"] = <<>>, !["gbcorner"] = <<>>]
               /\ UNCHANGED <<vm, x0, disl, bulk, auto, lastRead>>
SetDisl(d) == disl' = d /\ cache' = [cache EXCEPT !["disl"] = <<>>] /\ UNCHANGED <<vm, x0, grain, bulk, auto, lastRead>>
Read(p) == /\ (p # "gbcorner" => vm # None)        \* reading a volume dependent pool without a volume is an error in the code
           /\ cache' = [cache EXCEPT ![p] = IF cache[p] = <<>> THEN Stamp(p) ELSE cache[p]]
           /\ lastRead' = [p |-> p, got |-> cache'[p], want |-> Stamp(p)]
           /\ UNCHANGED <<vm, x0, grain, disl, bulk, auto>>
ReadBulk == lastRead' = [p |-> "bulk", got |-> bulk, want |-> IF ~auto THEN bulk ELSE IF x0 # None /\ vm # None THEN <<"auto", x0, vm>> ELSE bulk]
            /\ UNCHANGED <<vm, x0, grain, disl, bulk, auto, cache>>
Next == /\ nops < MaxOps /\ nops' = nops + 1
        /\ \/ \E v \in Vms : SetVm(v)
           \/ \E x \in X0s : SetX0(x)
           \/ \E b \in Bulks : SetBulk(b)
           \/ \E g \in Grains : SetGrain(g)
           \/ \E d \in Disls : SetDisl(d)
           \/ \E p \in Pools : Read(p)
           \/ ReadBulk
Spec == Init /\ [][Next]_vars
ReadIsCurrent == lastRead.p # "" => lastRead.got = lastRead.want
CacheNeverStale == \A p \in Pools : cache[p] # <<>> => cache[p] = Stamp(p)
UserBulkKept == [][bulk[1] = "user" => bulk' = bulk \/ \E b \in Bulks : bulk' = <<"user", b>>]_vars
=============================================================================
