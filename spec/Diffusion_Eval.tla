---------------------------- MODULE Diffusion_Eval ----------------------------
EXTENDS Diffusion, Json, IOUtils, TLC
Cases == JsonDeserialize(IOEnv.CASES)
Mode == IOEnv.SETUPMODE
Eval(c) == LET s == Run(c, Mode)
           IN [ err |-> s.err, rec |-> s.rec, t |-> s.t,
                stepsOK |-> StepsOK(s), closed |-> ClosedAcrossRun(c, s), dirichlet |-> DirichletAcrossRun(c, s),
                timesIncrease |-> TimesIncrease(s),
                mesh |-> IF s.err = "" /\ Len(s.rec) > 0 THEN [k \in 1..Len(c.meshtimes) |-> MeshAt(c, s, c.meshtimes[k])] ELSE <<>> ]
ASSUME JsonSerialize(IOEnv.OUTF, [i \in 1..Len(Cases) |-> Eval(Cases[i])])
VARIABLE x
Init == x = 0
Next == x' = x
=============================================================================
