------------------------------- MODULE MC_KWN -------------------------------
(* The lookup-refresh rule over all temperature paths on a small integer lattice. *)
EXTENDS KWN
CONSTANTS RefreshMode, MaxTempChange, Deltas, MaxSteps, Tlo, Thi
VARIABLES T, dTemp, tabT, k
vars == <<T, dTemp, tabT, k>>
DeltasDef == {-3, -1, 0, 1, 3}
Init == T \in Tlo..Thi /\ dTemp = 0 /\ tabT = T /\ k = 0
Step(d) == /\ k < MaxSteps /\ T + d \in Tlo..Thi
           /\ LET rf == Refresh(RefreshMode, dTemp, d, MaxTempChange)
              IN  /\ tabT' = IF rf[1] THEN T + d ELSE tabT
                  /\ dTemp' = rf[2]
           /\ T' = T + d /\ k' = k + 1
Next == \E d \in Deltas : Step(d)
Spec == Init /\ [][Next]_vars
(* C13: the table in use was computed within MaxTempChange of the current temperature *)
LookupFresh == Abs(T - tabT) <= MaxTempChange
(* bookkeeping: the accumulator is the distance to the table's temperature *)
AccumulatorExact == RefreshMode = "fixed" => dTemp = T - tabT
NeverRebuilds == [][tabT' = tabT]_vars
=============================================================================
