---------------------------- MODULE PBMTransport ----------------------------
(***************************************************************************)
(* kawin/precipitation/PopulationBalance.py: getdXdtEuler,                 *)
(* correctdXdtEuler, getDTEuler, getDissolutionIndex -- transcribed face   *)
(* by face over exact rationals.                                           *)
(* K classes; faces 1..K+1; class i lies between faces i and i+1.          *)
(*   b  : bounds (K+1 rationals)     n : populations (K)                   *)
(*   g  : growth rate at each face (K+1)                                   *)
(* (Python indices are 0-based, everything here is 1-based.)               *)
(***************************************************************************)
EXTENDS Rat

DR(b, i) == RSub(b[i + 1], b[i])                  \* width of class i
Centre(b, i) == RDiv(RAdd(b[i], b[i + 1]), RI(2))

(* getdXdtEuler: upwind flux through face j.
     flux <= 0 (fluxSign 0): donor is the class to the right of the face (class j), j <= K
     flux >  0 (fluxSign 1): donor is the class to the left of the face (class j-1), j >= 2 *)
NetFlux(K, b, n, g) == [j \in 1..(K + 1) |->
    RAdd( IF j <= K /\ ~RLt(RZero, g[j]) THEN RDiv(RMul(g[j], n[j]), DR(b, j)) ELSE RZero,
          IF j >= 2 /\  RLt(RZero, g[j]) THEN RDiv(RMul(g[j], n[j - 1]), DR(b, j - 1)) ELSE RZero )]

(* class that receives the nuclei -- what the property states: the class whose bounds contain r,
   the nearest end class when r lies outside the grid *)
NucClass(K, b, r) ==
    IF RLt(r, b[1]) THEN 1
    ELSE IF ~RLt(r, b[K + 1]) THEN K
    ELSE CHOOSE i \in 1..K : RLe(b[i], r) /\ RLt(r, b[i + 1])

(* as built: nRad = np.argmax(PSDbounds > r) - 1, with Python's wrap-around for -1 *)
AsBuiltNucClass(K, b, r) ==
    LET S == {j \in 1..(K + 1) : RLt(r, b[j])}
    IN  IF S = {} THEN K
        ELSE LET mn == CHOOSE j \in S : \A k \in S : j <= k
             IN IF mn = 1 THEN K ELSE mn - 1

NucClassUsed(K, b, r, mode) == IF mode = "asbuilt" THEN AsBuiltNucClass(K, b, r) ELSE NucClass(K, b, r)

DXdt(K, nf, rate, c) == [i \in 1..K |-> RAdd(RSub(nf[i], nf[i + 1]), IF i = c THEN rate ELSE RZero)]

(* correctdXdtEuler: first the faces 1..K against the class to their right (dissolution),
   then the faces 2..K+1 against the class to their left (growth), on the updated array *)
CorrectPerFace(K, nf, n, dt) ==
    LET a == [j \in 1..(K + 1) |->
                 IF j <= K /\ RLt(RMul(nf[j], dt), RNeg(n[j])) THEN RDiv(RNeg(n[j]), dt) ELSE nf[j]]
    IN  [j \in 1..(K + 1) |->
                 IF j >= 2 /\ RLt(n[j - 1], RMul(a[j], dt)) THEN RDiv(n[j - 1], dt) ELSE a[j]]
(* ... then the classes that lose particles through BOTH faces (the class that straddles the critical radius):
   when the two losses together exceed what the class holds, both fluxes are scaled down to its content.
   A face carries an outflow of at most one class (upwinding), so the scalings do not interfere. *)
LossL(c, i, dt) == IF RLt(c[i], RZero) THEN RMul(RNeg(c[i]), dt) ELSE RZero
LossR(c, i, dt) == IF RLt(RZero, c[i + 1]) THEN RMul(c[i + 1], dt) ELSE RZero
Both(c, n, i, dt) == /\ RLt(c[i], RZero) /\ RLt(RZero, c[i + 1]) /\ RLt(n[i], RAdd(LossL(c, i, dt), LossR(c, i, dt)))
Scale(c, n, i, dt) == RDiv(n[i], RAdd(LossL(c, i, dt), LossR(c, i, dt)))
CorrectTotal(K, c, n, dt) ==
    [j \in 1..(K + 1) |->
        IF j <= K /\ Both(c, n, j, dt) THEN RMul(c[j], Scale(c, n, j, dt))                    \* left face of class j
        ELSE IF j >= 2 /\ Both(c, n, j - 1, dt) THEN RMul(c[j], Scale(c, n, j - 1, dt))       \* right face of class j-1
        ELSE c[j]]
(* CorrMode = "perface": as built before the repair (known_findings.json, C02 density created by clipping a negative class) *)
CorrectM(K, nf, n, dt, mode) == IF mode = "perface" THEN CorrectPerFace(K, nf, n, dt)
                                ELSE CorrectTotal(K, CorrectPerFace(K, nf, n, dt), n, dt)
Correct(K, nf, n, dt) == CorrectM(K, nf, n, dt, "total")

(* getDTEuler(currDT, growth, dissolutionIndex(0-based d), ratio): left faces of populated classes
   with 0-based index >= d, i.e. 1-based class i >= d+1 *)
RMaxSet(S) == CHOOSE x \in S : \A y \in S : RLe(y, x)
GetDT(K, b, n, g, d, ratio, cur) ==
    LET F == {RAbs(g[i]) : i \in {i \in (d + 1)..K : RLt(RZero, n[i])}}
    IN  IF F = {} THEN cur
        ELSE IF RMaxSet(F) = RZero THEN cur
        ELSE RDiv(RMul(ratio, DR(b, 1)), RMaxSet(F))

Cube(x) == RMul(x, RMul(x, x))
RECURSIVE RPow(_, _)
RPow(x, k) == IF k = 0 THEN ROne ELSE RMul(x, RPow(x, k - 1))
Moment(K, b, n, k) == RSumOver([i \in 1..K |-> RMul(n[i], RPow(Centre(b, i), k))], 1..K)
CumMoment(K, b, n, k, i) == RSumOver([q \in 1..K |-> RMul(n[q], RPow(Centre(b, q), k))], 1..i)

(* getDissolutionIndex(maxDissolution, minIndex) -> 0-based index:
   max(argmax(cum3 > frac * M3), minIndex); argmax of an all-False array is 0 *)
DissIndex(K, b, n, frac, minIdx) ==
    LET lim == RMul(frac, Moment(K, b, n, 3))
        S == {i \in 1..K : RLt(lim, CumMoment(K, b, n, 3, i))}
        a == IF S = {} THEN 0 ELSE (CHOOSE i \in S : \A k \in S : i <= k) - 1
    IN  IF a > minIdx THEN a ELSE minIdx

(* ---------------------------- C07 clauses ---------------------------- *)
SumSeqR(K, f) == RSumOver(f, 1..K)

(* exchange between neighbours cancels: sum dXdt = rate + what crosses the two ends *)
SumLaw(K, dx, nf, rate) == REq(SumSeqR(K, dx), RAdd(rate, RSub(nf[1], nf[K + 1])))

(* growth moves particles only to the adjacent larger class, dissolution only to the adjacent
   smaller one: the flux through face j is g_j * (donor population) / (donor width) *)
Upwind(K, b, n, g, nf) == \A j \in 1..(K + 1) :
    nf[j] = IF RLt(RZero, g[j]) THEN (IF j >= 2 THEN RDiv(RMul(g[j], n[j - 1]), DR(b, j - 1)) ELSE RZero)
            ELSE (IF j <= K THEN RDiv(RMul(g[j], n[j]), DR(b, j)) ELSE RZero)

(* nuclei enter only the class that contains the radius *)
NucleationClassOK(K, b, n, g, rate, r, mode) ==
    LET nf == NetFlux(K, b, n, g)
        with == DXdt(K, nf, rate, NucClassUsed(K, b, r, mode))
        without == DXdt(K, nf, RZero, 1)
    IN  \A i \in 1..K : REq(RSub(with[i], without[i]), IF i = NucClass(K, b, r) THEN rate ELSE RZero)

(* after correction no class loses through one face more than it holds *)
FaceLimit(K, c, n, dt) == \A j \in 1..(K + 1) :
    /\ (j <= K => RLe(RMul(RNeg(c[j]), dt), n[j]))
    /\ (j >= 2 => RLe(RMul(c[j], dt), n[j - 1]))

(* beyond the stated property (docstring of correctdXdtEuler: "the total number of particles leaving a bin should be less
   than or equal to the number of particles in the bin"): with non-negative populations and a non-negative nucleation
   term NO class becomes negative after the correction, whatever the step *)
TotalLimit(K, n, dxc, dt) == \A i \in 1..K : ~RLt(RAdd(n[i], RMul(dxc[i], dt)), RZero)

(* a class whose two faces obey |g| dt <= ratio * dR (ratio <= 1/2) does not become negative *)
Obeys(b, g, i, dt, ratio) == /\ RLe(RMul(RAbs(g[i]), dt), RMul(ratio, DR(b, i)))
                             /\ RLe(RMul(RAbs(g[i + 1]), dt), RMul(ratio, DR(b, i)))
NoNegative(K, b, n, g, dxc, dt, ratio) == \A i \in 1..K :
    Obeys(b, g, i, dt, ratio) => ~RLt(RAdd(n[i], RMul(dxc[i], dt)), RZero)

(* the limit itself: ratio * class width / fastest relevant growth rate *)
StepLimitOK(K, b, n, g, d, ratio, cur) ==
    LET lim == GetDT(K, b, n, g, d, ratio, cur)
        rel == {i \in (d + 1)..K : RLt(RZero, n[i]) /\ g[i] # RZero}
    IN  IF rel = {} THEN lim = cur
        ELSE /\ \A i \in rel : RLe(RMul(RAbs(g[i]), lim), RMul(ratio, DR(b, 1)))
             /\ \E i \in rel : REq(RMul(RAbs(g[i]), lim), RMul(ratio, DR(b, 1)))
=============================================================================
