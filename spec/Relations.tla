------------------------------- MODULE Relations -------------------------------
(* Generic acceptor for stated order relations between logged quantities: every event is
   [e |-> "rel", name, c, want] where c \in {"lt","eq","gt","nan"} is the three-way comparison computed by the harness
   under its fixed tolerance and want \in {"eq","le","ge","lt","gt"} is the relation the property states.
   Also hosts the small state machine of the cached nucleation factors (C14, clause k). *)
EXTENDS Integers, Sequences, FiniteSets, Json, IOUtils, TLCExt, TLC
Traces == JsonDeserialize(IOEnv.TRACES)
NT == Len(Traces)
VARIABLES tid, l, fails
vars == <<tid, l, fails>>
Tr == Traces[tid]
Ev == Tr[l]
ASSUME \A i \in 1..NT : TLCSet(i, [l |-> 0, fails |-> {}])
Holds(c, want) == CASE want = "eq" -> c = "eq"
                    [] want = "le" -> c \in {"lt", "eq"}
                    [] want = "ge" -> c \in {"gt", "eq"}
                    [] want = "lt" -> c = "lt"
                    [] want = "gt" -> c = "gt"
TInit == tid \in 1..NT /\ l = 2 /\ fails = {}
TRel == /\ l <= Len(Tr) /\ Ev.e = "rel"
        \* the first failing instance of every group is kept (a total cap would let early failures hide later groups)
        /\ fails' = IF ~Holds(Ev.c, Ev.want) /\ (\A x \in fails : x[1] # Ev.group) THEN fails \cup {<<Ev.group, Ev.name, Ev.c, Ev.want>>} ELSE fails
        /\ l' = l + 1 /\ tid' = tid
TExc == /\ l <= Len(Tr) /\ Ev.e = "exception" /\ fails' = fails \cup {<<"exception", Ev.msg, "", "">>} /\ l' = l + 1 /\ tid' = tid
TNext == TRel \/ TExc
TSpec == TInit /\ [][TNext]_vars
Reached == TLCSet(tid, IF TLCGet(tid).l > l THEN TLCGet(tid) ELSE [l |-> l, fails |-> fails])
Report == JsonSerialize(IOEnv.OUTF, [i \in 1..NT |-> TLCGet(i)])
=============================================================================
