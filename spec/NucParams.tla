------------------------------- MODULE NucParams -------------------------------
(***************************************************************************)
(* kawin/precipitation/parameters/Nucleation.py: NucleationBarrierParameters *)
(* caches five geometric factors that depend on (interfacial energy, grain   *)
(* boundary energy, site type).  Property (C14, k): a read always returns the *)
(* factor of the CURRENT triple, after any interleaving of setters (directly, *)
(* through PrecipitateParameters.gamma / validate) and reads.                 *)
(***************************************************************************)
EXTENDS Integers, Sequences, FiniteSets, TLC
CONSTANTS Gammas, GbEs, Sites, Factors, MaxOps
VARIABLES cur, cache, lastRead, nops
vars == <<cur, cache, lastRead, nops>>
None == <<"none">>
Init == /\ cur \in Gammas \X GbEs \X Sites
        /\ cache = [f \in Factors |-> None] /\ lastRead = [f |-> "", tag |-> None, cur |-> None] /\ nops = 0
Invalidate == [f \in Factors |-> None]
SetGamma(g) == cur' = <<g, cur[2], cur[3]>> /\ cache' = Invalidate /\ UNCHANGED lastRead
SetGbE(e) == cur' = <<cur[1], e, cur[3]>> /\ cache' = Invalidate /\ UNCHANGED lastRead
SetSite(s) == cur' = <<cur[1], cur[2], s>> /\ cache' = Invalidate /\ UNCHANGED lastRead
Read(f) == /\ cache' = [cache EXCEPT ![f] = IF cache[f] = None THEN cur ELSE cache[f]]
           /\ lastRead' = [f |-> f, tag |-> cache'[f], cur |-> cur] /\ UNCHANGED cur
Next == /\ nops < MaxOps /\ nops' = nops + 1
        /\ \/ \E g \in Gammas : SetGamma(g)
           \/ \E e \in GbEs : SetGbE(e)
           \/ \E s \in Sites : SetSite(s)
           \/ \E f \in Factors : Read(f)
Spec == Init /\ [][Next]_vars
(* a read returns the factor computed for the current triple *)
ReadIsCurrent == lastRead.f # "" => lastRead.tag = lastRead.cur
CacheNeverStale == \A f \in Factors : cache[f] # None => cache[f] = cur
=============================================================================
