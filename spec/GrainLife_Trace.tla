--------------------------- MODULE GrainLife_Trace ---------------------------
(* Trace validation of real GrainGrowthModel objects against GrainLife.tla.  One trace = one history of loads, drag settings (through
   computeZenerRadius with a stub host), solves and resets on ONE object (harness/gg_drv.py).  After every call the harness logs the clock,
   the lengths of the two histories, whether the third moment is 1, whether the mean grain size fell during the call, and the stamp of
   the distribution the model holds: recognised by comparing it with freshly built models that replay candidate histories (the one the
   specification expects first, then histories that forget a reset or a load).  The acceptor is total. *)
EXTENDS GrainLife, Json, IOUtils, TLCExt
Traces == JsonDeserialize(IOEnv.TRACES)
NT == Len(Traces)
VARIABLES tid, l, fails
tvars == <<vars, tid, l, fails>>
Tr == Traces[tid]
Ev == Tr[l]
ASSUME \A i \in 1..NT : TLCSet(i, [l |-> 0, fails |-> {}])
TInit == Init /\ tid \in 1..NT /\ l = 2 /\ fails = {}
Act(e) == CASE e.op = "load" -> Load(e.arg)
            [] e.op = "drag" -> SetDrag(e.arg)
            [] e.op = "solve" -> Solve(e.arg)
            [] e.op = "reset" -> Reset
ToSeq(a) == [i \in 1..Len(a) |-> <<a[i][1], a[i][2]>>]
Mismatch(e) ==
       (IF e.obs.clock # clock' THEN {"C18:grain-clock=sum-of-spans-since-reset"} ELSE {})
  \cup (IF ~e.obs.aligned THEN {"C18:grain-histories-aligned"} ELSE {})
  \cup (IF e.obs.rowsgrew # (rows' > rows) THEN {"C18:one-solve-adds-rows/other-calls-add-none"} ELSE {})
  \cup (IF e.obs.rowsone # (rows' = 0) THEN {"C18:reset-leaves-one-row"} ELSE {})
  \cup (IF loaded' # "none" /\ ~e.obs.unitvolume THEN {"C18:grain-volume-conserved"} ELSE {})
  \cup (IF e.op = "solve" /\ drag = 0 /\ e.obs.meanfell THEN {"C18:mean-grain-size-never-decreases-without-pinning"} ELSE {})
  \cup (IF e.obs.dist[1] # loaded' \/ ToSeq(e.obs.dist[2]) # hist' THEN {"C18:distribution=loaded-evolved-by-the-spans-since-load-or-reset"} ELSE {})
TStep == /\ l <= Len(Tr) /\ Ev.e = "op" /\ Act(Ev) /\ UNCHANGED nops
         /\ fails' = fails \cup {<<c, l, Ev.op>> : c \in {c \in Mismatch(Ev) : \A x \in fails : x[1] # c}}
         /\ l' = l + 1 /\ tid' = tid
TExc == /\ l <= Len(Tr) /\ Ev.e = "exception" /\ fails' = fails \cup {<<"exception: " \o Ev.msg, l, "">>} /\ l' = l + 1 /\ UNCHANGED <<vars, tid>>
TNext == TStep \/ TExc
TSpec == TInit /\ [][TNext]_tvars
Reached == TLCSet(tid, IF TLCGet(tid).l > l THEN TLCGet(tid) ELSE [l |-> l, fails |-> fails])
Report == JsonSerialize(IOEnv.OUTF, [i \in 1..NT |-> TLCGet(i)])
=============================================================================
