------------------------------ MODULE PBM_Eval ------------------------------
(* TLC-as-evaluator for the transport operators: each case carries the inputs handed to the real
   PopulationBalanceModel; the expected values are computed by PBMTransport's operators and written
   out as exact rationals. *)
EXTENDS PBMTransport, Json, IOUtils, TLC
Cases == JsonDeserialize(IOEnv.CASES)
Mode == IOEnv.NUCMODE

Eval(c) ==
    LET K == c.K
        nf == NetFlux(K, c.b, c.n, c.g)
        nc == NucClassUsed(K, c.b, c.r, Mode)
        dx == DXdt(K, nf, c.rate, nc)
        nfc == Correct(K, nf, c.n, c.dt)
        dxc == DXdt(K, nfc, c.rate, nc)
    IN [ nf |-> nf, dx |-> dx, nfc |-> nfc, dxc |-> dxc, nuc |-> nc - 1,
         dtlim |-> GetDT(K, c.b, c.n, c.g, c.d, c.ratio, c.cur),
         diss |-> DissIndex(K, c.b, c.n, c.frac, c.minidx),
         sumlaw |-> SumLaw(K, dx, nf, c.rate) /\ SumLaw(K, dxc, nfc, c.rate),
         facelimit |-> FaceLimit(K, nfc, c.n, c.dt),
         nonneg |-> NoNegative(K, c.b, c.n, c.g, dxc, c.dt, c.ratio) ]

ASSUME JsonSerialize(IOEnv.OUTF, [i \in 1..Len(Cases) |-> Eval(Cases[i])])
VARIABLE x
Init == x = 0
Next == x' = x
=============================================================================
