--------------------------- MODULE ModelConfig_Trace ---------------------------
(* Trace validation of real PrecipitateModel objects against ModelConfig.tla (Mode = "fixed").
   A trace is one history of setter calls and reset()+setup() on ONE model (harness/cfg_drv.py).  After every setup the harness
   reads the pool of sites of the chosen site type (_calcNucleationSites on an empty distribution), the geometric factors of the
   nucleus, the Gibbs-Thomson energy of a 2 nm particle and the starting composition, recognises for each which inputs it was
   computed from (by comparing with freshly built models for the inputs in force now and earlier in the history) and logs that
   stamp; the event is consumed by the spec action of the same name and the stamps must equal the spec's next state.
   The acceptor is total: mismatches are collected as failed clauses. *)
EXTENDS ModelConfig, Json, IOUtils, TLCExt
Traces == JsonDeserialize(IOEnv.TRACES)
NT == Len(Traces)
VARIABLES tid, l, fails
tvars == <<vars, tid, l, fails>>
Tr == Traces[tid]
Ev == Tr[l]
ASSUME \A i \in 1..NT : TLCSet(i, [l |-> 0, fails |-> {}])
TInit == /\ tid \in 1..NT /\ l = 2 /\ fails = {}
         /\ inp = Traces[tid][1].inp /\ der = Compute(inp, inp.gbe) /\ fresh = TRUE /\ nops = 0
ToSeq(a) == [i \in 1..Len(a) |-> a[i]]
Mismatch(e) ==
       (IF der'.pool # ToSeq(e.obs.pool) THEN {"C14:site-pool-in-force=pool(site type, current inputs)"} ELSE {})
  \cup (IF der'.factors # ToSeq(e.obs.factors) THEN {"C14:nucleus-factors-in-force=f(site type, current energies)"} ELSE {})
  \cup (IF der'.gibbs # ToSeq(e.obs.gibbs) THEN {"C12:gibbs-thomson-in-force=f(current interfacial energy, volume, shape)"} ELSE {})
  \cup (IF der'.pool2 # ToSeq(e.obs.pool2) THEN {"C14:site-pool-in-force=pool(site type, current inputs)[second phase]"} ELSE {})
  \cup (IF der'.factors2 # ToSeq(e.obs.factors2) THEN {"C14:nucleus-factors-in-force=f(site type, current energies)[second phase]"} ELSE {})
  \cup (IF der'.gibbs2 # ToSeq(e.obs.gibbs2) THEN {"C12:gibbs-thomson-in-force=f(current interfacial energy, volume, shape)[second phase]"} ELSE {})
  \cup (IF der'.x # ToSeq(e.obs.x) THEN {"C01:starting-composition=current initial composition"} ELSE {})
TSet == /\ l <= Len(Tr) /\ Ev.e = "set" /\ Set(Ev.field, Ev.arg) /\ UNCHANGED nops
        /\ fails' = fails /\ l' = l + 1 /\ tid' = tid
TSetup == /\ l <= Len(Tr) /\ Ev.e = "setup" /\ Setup /\ UNCHANGED nops
          /\ fails' = fails \cup {<<c, l, "setup">> : c \in {c \in Mismatch(Ev) : \A x \in fails : x[1] # c}}
          /\ l' = l + 1 /\ tid' = tid
TExc == /\ l <= Len(Tr) /\ Ev.e = "exception" /\ fails' = fails \cup {<<"exception: " \o Ev.msg, l, "">>} /\ l' = l + 1 /\ UNCHANGED <<vars, tid>>
TNext == TSet \/ TSetup \/ TExc
TSpec == TInit /\ [][TNext]_tvars
Reached == TLCSet(tid, IF TLCGet(tid).l > l THEN TLCGet(tid) ELSE [l |-> l, fails |-> fails])
Report == JsonSerialize(IOEnv.OUTF, [i \in 1..NT |-> TLCGet(i)])
=============================================================================
