SPECIFICATION FairSpec
CONSTANTS
  NM = 1
  Iter = "euler"
  Spans = {8}
  MinDens = {8}
  MaxDens = {2}
  T0s = {0, 3}
  Proposals <- PropsFull
  Layouts <- Lay2
  MaxSolves = 2
  MaxSteps = 8
  StageTimes = "asbuilt"
INVARIANT TypeOK
INVARIANT NeverExceedEnd
INVARIANT ShapesAgree
PROPERTY StrictlyIncreasing
PROPERTY StepWithinFractions
PROPERTY EndsExactly
PROPERTY StopEndsRun
PROPERTY Continues
PROPERTY Terminates
