"""Scripted models for the generic solver (C05/C06): every callback is logged as one trace event."""
import math, itertools
import numpy as np
from kawin.GenericModel import GenericModel, Coupler
from kawin.solver.Solver import SolverType

BAD = -999999      # projection of a value that is not an integer in the specification's unit

LAY_A = [[], [2]]
LAY_B = [[3]]
LAY_C = [[2, 2], []]
LAY_D = [[1], [], [3]]       # a one-element ARRAY next to a true scalar and a vector: shape (1,) is not shape ()
LAY_E = [[1]]
LAY_F = [[1, 1], [2]]
LAYOUTS = [LAY_A, LAY_B, LAY_C, LAY_D, LAY_E, LAY_F]

PROPS_FULL = [("nan", 0), ("pinf", 0), ("ninf", 0), ("num", -1), ("num", 0), ("num", 1), ("num", 2),
              ("num", 3), ("num", 8), ("num", 800)]


def as_int(v):
    try:
        f = float(v)
    except Exception:
        return BAD
    if f != f or math.isinf(f) or f != round(f) or abs(f) > 2**30:
        return BAD
    return int(round(f))


def flat_len(lay):
    return sum(int(np.prod(s)) if s else 1 for s in lay)


def build_x(lay, flat):
    out, n = [], 0
    for s in lay:
        if not s:
            out.append(float(flat[n])); n += 1
        else:
            k = int(np.prod(s))
            out.append(np.array(flat[n:n + k], dtype=float).reshape(s)); n += k
    return out


def observe(x):
    """projection of a nested state: (layout, flat ints)"""
    lay, flat = [], []
    try:
        for leaf in x:
            a = np.array(leaf)
            lay.append([int(d) for d in a.shape])
            flat.extend(as_int(v) for v in a.ravel())
    except Exception:
        return [[BAD]], [BAD]
    return lay, flat


def prop_value(p, tick):
    k, v = p
    return {"nan": float("nan"), "pinf": float("inf"), "ninf": float("-inf")}.get(k, v * tick)


class ScriptModel(GenericModel):
    """step script entries: dict(p=(kind, v), s=bool, newlay=layout|None); cycles when exhausted"""

    def __init__(self, idx, layout, t0, script, log, tick=1.0, clock_offset=0):
        super().__init__()
        self.idx, self.layout, self.log, self.tick = idx, layout, log, tick
        self.clock_offset = clock_offset          # a sub-model with a clock of its own (e.g. solved alone before): a coupling keeps its OWN time
        self.t = t0 * tick
        self.x = build_x(layout, [100 * j for j in range(1, flat_len(layout) + 1)])
        self.script = script
        self.nget = 0
        self.npost = 0
        self._last_d = None

    def _entry(self, n):
        return self.script[n % len(self.script)]

    def setup(self):
        self.log.append({"e": "setup", "m": self.idx})

    def getCurrentX(self):
        lay, flat = observe(self.x)
        self.log.append({"e": "curx", "m": self.idx, "lay": lay, "x": flat})
        return self.t + self.clock_offset * self.tick, self.x

    def preProcess(self):
        self.log.append({"e": "pre", "m": self.idx})

    def flattenX(self, X):
        return np.concatenate([np.ravel(np.array(x, dtype=float)) for x in X])

    def getdXdt(self, t, x):
        lay, flat = observe(x)
        t2 = as_int(2 * t / self.tick)
        self.log.append({"e": "f", "m": self.idx, "t2": t2, "lay": lay, "x": flat})
        n = flat_len(self.layout)
        d = [(2 * j + 2 * (2 * t / self.tick)) / self.tick for j in range(1, n + 1)]
        self._last_d = build_x(self.layout, d)
        return self._last_d

    def getDt(self, dXdt):
        e = self._entry(self.nget)
        self.nget += 1
        _, flat = observe([np.array(v) * self.tick for v in dXdt])
        self.log.append({"e": "getdt", "m": self.idx, "p": {"k": e["p"][0], "v": e["p"][1]}, "d": flat})
        return prop_value(e["p"], self.tick)

    def correctdXdt(self, dt, x, dXdt):
        lay, flat = observe(x)
        self.log.append({"e": "c", "m": self.idx, "dt2": as_int(2 * dt / self.tick), "lay": lay, "x0": flat})

    def postProcess(self, time, x):
        e = self._entry(self.npost)
        self.npost += 1
        lay, flat = observe(x)
        newlay = e.get("newlay") or self.layout
        self.log.append({"e": "post", "m": self.idx, "t": as_int(time / self.tick), "lay": lay, "x": flat,
                         "s": bool(e["s"]), "newlay": newlay})
        self.t = time
        if newlay != self.layout:
            self.layout = newlay
            self.x = build_x(newlay, [100 * j for j in range(1, flat_len(newlay) + 1)])
        else:
            self.x = x
        return self.x, bool(e["s"])


def run_trace(case):
    """case: dict(nm, iter, t0, tick, layouts[list per model], scripts[list per model], calls[list of (span,minden,maxden)])
    Returns the event list (first element = init record).  Exceptions of the code under test become a
    terminal event the specification has no action for."""
    log = []
    nm = case["nm"]
    tick = case.get("tick", 1.0)
    offs = case.get("clock_offsets") or [0] * nm
    models = [ScriptModel(i + 1, case["layouts"][i], case["t0"], case["scripts"][i], log, tick, clock_offset=(offs[i] if case.get("coupler", nm > 1) else 0)) for i in range(nm)]
    if case.get("coupler", nm > 1):
        top = Coupler(models)
        top.time = np.array([case["t0"] * tick])
    else:
        top = models[0]
    it = SolverType.RK4 if case["iter"] == "rk4" else SolverType.EXPLICITEULER
    init = {"e": "init", "layouts": case["layouts"], "t0": case["t0"]}
    for (span, minden, maxden) in case["calls"]:
        log.append({"e": "solve", "span": span, "minden": minden, "maxden": maxden})
        try:
            top.solve(span * tick, solverType=it, minDtFrac=1.0 / minden, maxDtFrac=1.0 / maxden)
        except Exception as ex:   # noqa
            log.append({"e": "exception", "cls": type(ex).__name__, "msg": str(ex)[:200]})
            break
        tnow = top.time[-1] if isinstance(top, Coupler) else top.t
        log.append({"e": "ret", "t": as_int(tnow / tick)})
        if len(log) > 4000:
            break
    return [init] + log


def gen_cases(rng, tier, nm, it):
    """exhaustive short scripts + seeded random longer ones"""
    cases = []
    lays = LAYOUTS
    # exhaustive: every pair of proposals (cycled), every stop position in the first 3 steps, 2 solve calls
    plist = PROPS_FULL
    base_lay = [lays[i % 3] for i in range(nm)]
    # every layout, alone and as a member of a coupled pair, with a layout change on the way
    for k, lay in enumerate(lays):
        other = lays[(k + 1) % len(lays)]
        sc = [dict(p=("num", 2), s=False), dict(p=("num", 1), s=False, newlay=other), dict(p=("num", 2), s=False, newlay=lay)]
        if nm == 1:
            cases.append(dict(nm=1, iter=it, t0=0, layouts=[lay], scripts=[sc], calls=[(8, 8, 2), (8, 8, 2)], coupler=False))
        else:
            cases.append(dict(nm=nm, iter=it, t0=0, layouts=[lays[(k + i) % len(lays)] for i in range(nm)],
                              scripts=[sc for _ in range(nm)], calls=[(8, 8, 2)]))
    if nm == 1:
        for p1, p2 in itertools.product(plist, plist):
            for stop_at in (None, 0, 1):
                sc = [dict(p=p1, s=(stop_at == 0)), dict(p=p2, s=(stop_at == 1)),
                      dict(p=p1, s=False), dict(p=p2, s=False)]
                cases.append(dict(nm=1, iter=it, t0=0, layouts=base_lay, scripts=[sc],
                                  calls=[(8, 8, 2), (8, 8, 2)], coupler=False))
    else:
        for ps in itertools.product(plist, repeat=nm):
            sc = [[dict(p=ps[i], s=False), dict(p=("num", 2), s=False)] for i in range(nm)]
            cases.append(dict(nm=nm, iter=it, t0=0, layouts=base_lay, scripts=sc, calls=[(8, 8, 2)]))
    if nm > 1:
        # sub-models whose own clock differs from the coupling's (solved alone before / keeping no clock): the coupling starts every call at ITS time
        sc2 = [dict(p=("num", 2), s=False), dict(p=("num", 1), s=False)]
        for offs in ([0] * (nm - 1) + [5], [5] + [0] * (nm - 1), [3] * nm):
            cases.append(dict(nm=nm, iter=it, t0=0, layouts=base_lay, scripts=[sc2 for _ in range(nm)], calls=[(8, 8, 2), (8, 8, 2)], clock_offsets=offs))
            cases.append(dict(nm=nm, iter=it, t0=3, tick=0.25, layouts=base_lay, scripts=[sc2 for _ in range(nm)], calls=[(16, 8, 4)], clock_offsets=offs))
    nrand = (150 if tier == "quick" else 1500) // nm
    for _ in range(nrand):
        t0 = rng.choice([0, 3, 1024])
        tick = rng.choice([1.0, 0.25, 4.0])
        layouts = [rng.choice(lays) for _ in range(nm)]
        scripts = []
        for i in range(nm):
            L = rng.randint(1, 6)
            sc = []
            for _ in range(L):
                nl = rng.choice(lays) if rng.random() < 0.2 else None
                sc.append(dict(p=rng.choice(plist), s=rng.random() < 0.08, newlay=nl))
            scripts.append(sc)
        calls = []
        for _ in range(rng.randint(1, 3)):
            span = rng.choice([8, 16, 32])
            minden = rng.choice([d for d in (2, 4, 8, 16, 32) if span % d == 0])
            maxden = rng.choice([1, 2, 4])
            calls.append((span, minden, maxden))
        cases.append(dict(nm=nm, iter=it, t0=t0, tick=tick, layouts=layouts, scripts=scripts, calls=calls,
                          coupler=(nm > 1) or rng.random() < 0.3))
    return cases
