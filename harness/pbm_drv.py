"""Drivers for the real PopulationBalanceModel (C07 transport, C08 grid histories)."""
import itertools
from fractions import Fraction as Fr
import numpy as np
from kawin.precipitation.PopulationBalance import PopulationBalanceModel


def rat(f):
    f = Fr(f)
    return [f.numerator, f.denominator]


def make_pbm(bounds, psd=None):
    """a PBM whose grid is exactly `bounds` (list of Fractions, uniformly spaced)"""
    K = len(bounds) - 1
    p = PopulationBalanceModel(float(bounds[0]), float(bounds[-1]), K, 2, 2 * K + 2)
    # kawin forces max >= 10*min in the constructor; the state is loaded the way fromDict does it
    p.min, p.max, p.bins = float(bounds[0]), float(bounds[-1]), K
    p.PSDbounds = np.array([float(b) for b in bounds])
    p.PSDsize = 0.5 * (p.PSDbounds[:-1] + p.PSDbounds[1:])
    p.PSD = np.zeros(K) if psd is None else np.array([float(v) for v in psd])
    return p


def transport_case(c):
    """c: dict with Fractions: b, n, g, rate, r, dt, d, ratio, cur, frac, minidx.  Runs the real code."""
    p = make_pbm(c["b"], c["n"])
    n = np.array([float(v) for v in c["n"]])
    g = np.array([float(v) for v in c["g"]])
    obs = {}
    try:
        n_in, g_in = n.copy(), g.copy()
        dx = p.getdXdtEuler(g, float(c["rate"]), float(c["r"]), n)
        obs["dx"] = [float(v) for v in dx]
        obs["nf"] = [float(v) for v in p._netFlux]
        dxc = p.correctdXdtEuler(float(c["dt"]), g, float(c["rate"]), float(c["r"]), n)
        obs["dxc"] = [float(v) for v in dxc]
        obs["nfc"] = [float(v) for v in p._netFlux]
        obs["dtlim"] = float(p.getDTEuler(float(c["cur"]), g, int(c["d"]), float(c["ratio"])))
        obs["diss"] = int(p.getDissolutionIndex(float(c["frac"]), int(c["minidx"])))
        obs["args_intact"] = bool(np.array_equal(n, n_in) and np.array_equal(g, g_in))
        # which class received the nuclei: difference with a zero-rate evaluation
        dx0 = p.getdXdtEuler(g, 0.0, float(c["r"]), n)
        diff = np.array(obs["dx"]) - dx0
        nz = np.nonzero(diff)[0]
        obs["nuc"] = int(nz[0]) if len(nz) == 1 else (-1 if len(nz) == 0 else -2)
    except Exception as ex:  # noqa
        obs["exception"] = "%s: %s" % (type(ex).__name__, str(ex)[:200])
    return obs


def to_json(c):
    return {"K": len(c["n"]), "b": [rat(v) for v in c["b"]], "n": [rat(v) for v in c["n"]],
            "g": [rat(v) for v in c["g"]], "rate": rat(c["rate"]), "r": rat(c["r"]), "dt": rat(c["dt"]),
            "d": int(c["d"]), "ratio": rat(c["ratio"]), "cur": rat(c["cur"]), "frac": rat(c["frac"]),
            "minidx": int(c["minidx"])}


GRIDS = [(Fr(1), Fr(1)), (Fr(2), Fr(2)), (Fr(1), Fr(1, 2)), (Fr(1), Fr(3))]


def bounds_of(gmin, w, K):
    return [gmin + w * j for j in range(K + 1)]


def radius_positions(b):
    K = len(b) - 1
    out = [b[0] - Fr(1, 2)]
    for i in range(K):
        out.append(b[i])
        out.append(b[i] + (b[i + 1] - b[i]) / 4)
    out += [b[K], b[K] + 1]
    return out


def gen_transport(rng, tier):
    """exhaustive 3-class product (sampled in the quick tier) + seeded larger instances"""
    cases = []
    pops, grows = [0, 1, 2, 5], [-2, -1, 0, 1, 2]
    dts = [Fr(1, 4), Fr(1, 2), Fr(1), Fr(4)]
    K = 3
    full = []
    for (gmin, w) in GRIDS[:3]:
        b = bounds_of(gmin, w, K)
        rp = radius_positions(b)
        for n in itertools.product(pops, repeat=K):
            for g in itertools.product(grows, repeat=K + 1):
                full.append((b, n, g, rp))
    take = full if tier == "thorough" else rng.sample(full, 6000)
    for (b, n, g, rp) in take:
        # per (grid, n, g): vary the remaining coordinates cyclically so all values occur
        k = len(cases)
        rate = Fr([0, 3][k % 2])
        r = rp[k % len(rp)]
        dt = dts[(k // 2) % 4]
        cases.append(dict(b=b, n=[Fr(v) for v in n], g=[Fr(v) for v in g], rate=rate, r=r, dt=dt,
                          d=k % K, ratio=Fr(2, 5), cur=Fr(7), frac=Fr([0, 1, 5, 50][k % 4], 100), minidx=(k // 3) % K))
    # all nucleation positions x all dts on a fixed non-trivial state, per grid
    for (gmin, w) in GRIDS:
        b = bounds_of(gmin, w, K)
        for r in radius_positions(b):
            for dt in dts:
                cases.append(dict(b=b, n=[Fr(5), Fr(0), Fr(2)], g=[Fr(-1), Fr(2), Fr(-2), Fr(1)], rate=Fr(3), r=r,
                                  dt=dt, d=0, ratio=Fr(2, 5), cur=Fr(7), frac=Fr(1, 100), minidx=0))
    # seeded larger instances: 6-12 classes, sparse / huge dynamic range, physical 1/R growth shapes
    nbig = 400 if tier == "quick" else 4000
    for _ in range(nbig):
        K2 = rng.randint(4, 10)
        gmin, w = rng.choice(GRIDS)
        b = bounds_of(gmin, w, K2)
        kind = rng.choice(["sparse", "range", "dense", "empty", "single"])
        if kind == "sparse":
            n = [Fr(rng.choice([0, 0, 0, 1, 7])) for _ in range(K2)]
        elif kind == "range":
            n = [Fr(2 ** rng.randint(0, 10)) if rng.random() < 0.7 else Fr(0) for _ in range(K2)]
        elif kind == "dense":
            n = [Fr(rng.randint(1, 9)) for _ in range(K2)]
        elif kind == "empty":
            n = [Fr(0)] * K2
        else:
            n = [Fr(0)] * K2
            n[rng.randrange(K2)] = Fr(2 ** rng.randint(0, 10))
        gk = rng.choice(["rand", "invr", "zero", "signflip"])
        if gk == "rand":
            g = [Fr(rng.randint(-8, 8), rng.choice([1, 2, 4])) for _ in range(K2 + 1)]
        elif gk == "invr":
            rc = rng.choice(b)   # growth ~ (1/rc - 1/R)/R, rational
            g = [Fr(round(48 * float((1 / rc - 1 / x) / x)), 4) for x in b]   # 1/R law, coarsened to quarters
        elif gk == "zero":
            g = [Fr(0)] * (K2 + 1)
        else:
            s = rng.randrange(K2 + 1)
            g = [Fr(-(1 + rng.randint(0, 3))) if j < s else Fr(1 + rng.randint(0, 3)) for j in range(K2 + 1)]
        rp = radius_positions(b)
        cases.append(dict(b=b, n=n, g=g, rate=Fr(rng.choice([0, 3, 100])), r=rng.choice(rp),
                          dt=rng.choice(dts + [Fr(1, 16), Fr(16)]), d=rng.randrange(K2), ratio=rng.choice([Fr(2, 5), Fr(1, 4), Fr(1, 2)]),
                          cur=Fr(rng.choice([7, 1000])), frac=Fr(rng.choice([0, 1, 10, 50, 99]), 100), minidx=rng.randrange(K2)))
    return cases
