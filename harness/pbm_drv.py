"""Drivers for the real PopulationBalanceModel (C07 transport, C08 grid histories)."""
import itertools
from fractions import Fraction as Fr
import numpy as np
from kawin.precipitation.PopulationBalance import PopulationBalanceModel


def rat(f):
    f = Fr(f)
    return [f.numerator, f.denominator]


def make_pbm(bounds, psd=None):
    """a PBM whose grid is exactly `bounds` (list of Fractions, uniformly spaced)"""
    K = len(bounds) - 1
    p = PopulationBalanceModel(float(bounds[0]), float(bounds[-1]), K, 2, 2 * K + 2)
    # kawin forces max >= 10*min in the constructor; the state is loaded the way fromDict does it
    p.min, p.max, p.bins = float(bounds[0]), float(bounds[-1]), K
    p.PSDbounds = np.array([float(b) for b in bounds])
    p.PSDsize = 0.5 * (p.PSDbounds[:-1] + p.PSDbounds[1:])
    p.PSD = np.zeros(K) if psd is None else np.array([float(v) for v in psd])
    return p


def transport_case(c):
    """c: dict with Fractions: b, n, g, rate, r, dt, d, ratio, cur, frac, minidx.  Runs the real code."""
    p = make_pbm(c["b"], c["n"])
    n = np.array([float(v) for v in c["n"]])
    g = np.array([float(v) for v in c["g"]])
    obs = {}
    try:
        n_in, g_in = n.copy(), g.copy()
        dx = p.getdXdtEuler(g, float(c["rate"]), float(c["r"]), n)
        obs["dx"] = [float(v) for v in dx]
        obs["nf"] = [float(v) for v in p._netFlux]
        dxc = p.correctdXdtEuler(float(c["dt"]), g, float(c["rate"]), float(c["r"]), n)
        obs["dxc"] = [float(v) for v in dxc]
        obs["nfc"] = [float(v) for v in p._netFlux]
        obs["dtlim"] = float(p.getDTEuler(float(c["cur"]), g, int(c["d"]), float(c["ratio"])))
        obs["diss"] = int(p.getDissolutionIndex(float(c["frac"]), int(c["minidx"])))
        obs["args_intact"] = bool(np.array_equal(n, n_in) and np.array_equal(g, g_in))
        # which class received the nuclei: difference with a zero-rate evaluation
        dx0 = p.getdXdtEuler(g, 0.0, float(c["r"]), n)
        diff = np.array(obs["dx"]) - dx0
        nz = np.nonzero(diff)[0]
        obs["nuc"] = int(nz[0]) if len(nz) == 1 else (-1 if len(nz) == 0 else -2)
    except Exception as ex:  # noqa
        obs["exception"] = "%s: %s" % (type(ex).__name__, str(ex)[:200])
    return obs


def to_json(c):
    return {"K": len(c["n"]), "b": [rat(v) for v in c["b"]], "n": [rat(v) for v in c["n"]],
            "g": [rat(v) for v in c["g"]], "rate": rat(c["rate"]), "r": rat(c["r"]), "dt": rat(c["dt"]),
            "d": int(c["d"]), "ratio": rat(c["ratio"]), "cur": rat(c["cur"]), "frac": rat(c["frac"]),
            "minidx": int(c["minidx"])}


GRIDS = [(Fr(1), Fr(1)), (Fr(2), Fr(2)), (Fr(1), Fr(1, 2)), (Fr(1), Fr(3))]


def bounds_of(gmin, w, K):
    return [gmin + w * j for j in range(K + 1)]


def radius_positions(b):
    K = len(b) - 1
    out = [b[0] - Fr(1, 2)]
    for i in range(K):
        out.append(b[i])
        out.append(b[i] + (b[i + 1] - b[i]) / 4)
    out += [b[K], b[K] + 1]
    return out


def gen_transport(rng, tier):
    """exhaustive 3-class product (sampled in the quick tier) + seeded larger instances"""
    cases = []
    pops, grows = [0, 1, 2, 5], [-2, -1, 0, 1, 2]
    dts = [Fr(1, 4), Fr(1, 2), Fr(1), Fr(4)]
    K = 3
    full = []
    for (gmin, w) in GRIDS[:3]:
        b = bounds_of(gmin, w, K)
        rp = radius_positions(b)
        for n in itertools.product(pops, repeat=K):
            for g in itertools.product(grows, repeat=K + 1):
                full.append((b, n, g, rp))
    take = full if tier == "thorough" else rng.sample(full, 6000)
    for (b, n, g, rp) in take:
        # per (grid, n, g): vary the remaining coordinates cyclically so all values occur
        k = len(cases)
        rate = Fr([0, 3][k % 2])
        r = rp[k % len(rp)]
        dt = dts[(k // 2) % 4]
        cases.append(dict(b=b, n=[Fr(v) for v in n], g=[Fr(v) for v in g], rate=rate, r=r, dt=dt,
                          d=k % K, ratio=Fr(2, 5), cur=Fr(7), frac=Fr([0, 1, 5, 50][k % 4], 100), minidx=(k // 3) % K))
    # all nucleation positions x all dts on a fixed non-trivial state, per grid
    for (gmin, w) in GRIDS:
        b = bounds_of(gmin, w, K)
        for r in radius_positions(b):
            for dt in dts:
                cases.append(dict(b=b, n=[Fr(5), Fr(0), Fr(2)], g=[Fr(-1), Fr(2), Fr(-2), Fr(1)], rate=Fr(3), r=r,
                                  dt=dt, d=0, ratio=Fr(2, 5), cur=Fr(7), frac=Fr(1, 100), minidx=0))
    # seeded larger instances: 6-12 classes, sparse / huge dynamic range, physical 1/R growth shapes
    nbig = 400 if tier == "quick" else 4000
    for _ in range(nbig):
        K2 = rng.randint(4, 10)
        gmin, w = rng.choice(GRIDS)
        b = bounds_of(gmin, w, K2)
        kind = rng.choice(["sparse", "range", "dense", "empty", "single"])
        if kind == "sparse":
            n = [Fr(rng.choice([0, 0, 0, 1, 7])) for _ in range(K2)]
        elif kind == "range":
            n = [Fr(2 ** rng.randint(0, 10)) if rng.random() < 0.7 else Fr(0) for _ in range(K2)]
        elif kind == "dense":
            n = [Fr(rng.randint(1, 9)) for _ in range(K2)]
        elif kind == "empty":
            n = [Fr(0)] * K2
        else:
            n = [Fr(0)] * K2
            n[rng.randrange(K2)] = Fr(2 ** rng.randint(0, 10))
        gk = rng.choice(["rand", "invr", "zero", "signflip"])
        if gk == "rand":
            g = [Fr(rng.randint(-8, 8), rng.choice([1, 2, 4])) for _ in range(K2 + 1)]
        elif gk == "invr":
            rc = rng.choice(b)   # growth ~ (1/rc - 1/R)/R, rational
            g = [Fr(round(48 * float((1 / rc - 1 / x) / x)), 4) for x in b]   # 1/R law, coarsened to quarters
        elif gk == "zero":
            g = [Fr(0)] * (K2 + 1)
        else:
            s = rng.randrange(K2 + 1)
            g = [Fr(-(1 + rng.randint(0, 3))) if j < s else Fr(1 + rng.randint(0, 3)) for j in range(K2 + 1)]
        rp = radius_positions(b)
        cases.append(dict(b=b, n=n, g=g, rate=Fr(rng.choice([0, 3, 100])), r=rng.choice(rp),
                          dt=rng.choice(dts + [Fr(1, 16), Fr(16)]), d=rng.randrange(K2), ratio=rng.choice([Fr(2, 5), Fr(1, 4), Fr(1, 2)]),
                          cur=Fr(rng.choice([7, 1000])), frac=Fr(rng.choice([0, 1, 10, 50, 99]), 100), minidx=rng.randrange(K2)))
    return cases


# ---------------------------------------------------------------- C08: grid histories
CONFIGS = [(0, 8, 4, 2, 4, True), (0, 8, 4, 2, 6, True), (0, 8, 4, 2, 4, False), (0, 6, 3, 2, 4, True), (0, 4, 4, 2, 6, True),
           (0, 8, 3, 8, 12, True)]      # fewer classes than minBins (the constructor does not check): the dissolution re-mesh stays inside the grid


def pattern(k, p):
    if p == 0: return [Fr(0)] * k
    if p == 1: return [Fr(5)] * k
    if p == 2: return [Fr(2) if i == 1 else Fr(0) for i in range(1, k + 1)]
    if p == 3: return [Fr(5) if i == (k + 1) // 2 else (Fr(1, 2) if i == k else Fr(0)) for i in range(1, k + 1)]
    if p == 4: return [Fr(i) for i in range(1, k + 1)]
    if p == 5: return [Fr(3) if 4 * i <= k + 3 else Fr(0) for i in range(1, k + 1)]
    if p == 6: return [Fr(7) if i == k else Fr(0) for i in range(1, k + 1)]
    raise ValueError(p)


LOAD_DATA = [Fr(0), Fr(1), Fr(3, 2), Fr(4), Fr(4), Fr(6), Fr(9), Fr(100)]


def alphabet(bins, backed, allow_remesh=True):
    ops = [dict(op="reset", rb=True), dict(op="reset", rb=False), dict(op="add", k=1), dict(op="add", k=2)]
    if allow_remesh:
        for (a, b) in ((0, 6), (0, 12)):
            for n in (0, 2, 3):
                ops.append(dict(op="change", a=Fr(a), b=Fr(b), n=n, reset=False))
        ops += [dict(op="adjust", chk=True), dict(op="adjust", chk=False)]
    ops.append(dict(op="change", a=Fr(0), b=Fr(20), n=4, reset=True))
    for p in range(7):
        ops.append(dict(op="update", p=p))
    ops.append(dict(op="backup"))
    ops.append(dict(op="revert"))        # always legal: without a backup it returns to the fresh grid of the last full reset
    ops += [dict(op="load", data=LOAD_DATA), dict(op="loadfn", c=Fr(2)), dict(op="moments")]
    ops += [dict(op="recon"), dict(op="recoff"), dict(op="recreset"), dict(op="recremove")]
    ops += [dict(op="settime", t=Fr(0)), dict(op="settime", t=Fr(3, 2)), dict(op="settime", t=Fr(100))]
    return ops


def op_json(op, bins):
    o = dict(op)
    if o["op"] == "update":
        o = {"op": "updatep", "p": op["p"]}
    elif o["op"] == "change":
        o["a"], o["b"] = rat(o["a"]), rat(o["b"])
    elif o["op"] == "load":
        o["data"] = [rat(v) for v in o["data"]]
    elif o["op"] == "loadfn":
        o["c"] = rat(o["c"])
    elif o["op"] == "settime":
        o["t"] = rat(o["t"])
    return o


def snapshot(p):
    d = dict(bins=int(p.bins), min=float(p.min), max=float(p.max), bounds=[float(v) for v in p.PSDbounds],
             size=[float(v) for v in p.PSDsize], psd=[float(v) for v in p.PSD], psdlen=len(p.PSD))
    if p._recordedTime is None:
        d["hasRec"] = False
        d["rec"] = []
    else:
        d["hasRec"] = True
        d["rec"] = [{"t": float(t), "bounds": [float(v) for v in b], "psd": [float(v) for v in q]}
                    for t, b, q in zip(p._recordedTime, p._recordedBins, p._recordedPSD)]
    return d


def apply_op(p, op):
    """apply one operation to the real object; returns extra observations"""
    k = op["op"]
    extra = {}
    if k == "reset": p.reset(op["rb"])
    elif k == "add": p.addSizeClasses(op["k"])
    elif k == "change":
        p.changeSizeClasses(float(op["a"]), float(op["b"]), None if op["n"] == 0 else op["n"], op["reset"])
    elif k == "adjust":
        ch, ni = p.adjustSizeClassesEuler(op["chk"])
        extra["ret"] = [bool(ch), None if ni is None else int(ni)]
    elif k == "update":
        p._verif_clock = getattr(p, "_verif_clock", 0) + 1        # logical clock of the drivers: the k-th update happens at time k
        p.UpdatePBMEuler(float(p._verif_clock), np.array([float(v) for v in pattern(p.bins, op["p"])]))
    elif k == "recon": p.enableRecording()
    elif k == "recoff": p.disableRecording()
    elif k == "recreset": p.resetRecordedData()
    elif k == "recremove": p.removeRecordedData()
    elif k == "settime":
        import io, contextlib
        with contextlib.redirect_stdout(io.StringIO()):
            p.setPSDtoRecordedTime(float(op["t"]))
    elif k == "normalize": p.NormalizeToMoment(op["k"])
    elif k == "selfupdate":
        p._verif_clock = getattr(p, "_verif_clock", 0) + 1
        p.UpdatePBMEuler(float(p._verif_clock), p.PSD)            # the model's own array handed back: populations below one are removed in place
    elif k == "backup": p.createBackup()
    elif k == "revert": p.revert()
    elif k == "load": p.LoadDistribution(np.array([float(v) for v in op["data"]]))
    elif k == "loadfn": p.LoadDistributionFunction(lambda R: float(op["c"]) * R)
    elif k == "moments":
        N = np.array([float(3 * i + 1) for i in range(p.bins)])
        w = np.array([(i % 3 + 1) / 2.0 for i in range(p.bins)])
        keep = (p.PSD.copy(), p.PSDbounds.copy())
        extra["moments"] = dict(m0=float(p.ZeroMomentFromN(N)), m1=float(p.FirstMomentFromN(N)), m2=float(p.SecondMomentFromN(N)),
                                m3=float(p.ThirdMomentFromN(N)), cum3=[float(v) for v in p.CumulativeMomentFromN(N, 3)],
                                w1=float(p.WeightedMomentFromN(N, 1, w)),
                                cumw2=[float(v) for v in p.CumulativeWeightedMomentFromN(N, 2, w)])
        extra["pure"] = bool(np.array_equal(keep[0], p.PSD) and np.array_equal(keep[1], p.PSDbounds))
    return extra


def run_history(cfg, ops):
    cmin, cmax, bins, minb, maxb, adaptive = cfg
    p = PopulationBalanceModel(float(cmin), float(cmax), bins, minb, maxb)
    p.setAdaptiveBinSize(adaptive)
    out = {"init": snapshot(p), "steps": []}
    js = []
    for op in ops:
        js.append(op_json(op, p.bins))
        try:
            extra = apply_op(p, op)
            st = snapshot(p)
            st.update(extra)
        except Exception as ex:  # noqa
            st = {"exception": type(ex).__name__, "msg": str(ex)[:200]}
            out["steps"].append(st)
            break
        out["steps"].append(st)
    return js, out


def gen_histories(rng, tier):
    """all histories of length <= L over the alphabet (with the one-remesh-per-distribution rule of PBM_MC),
    plus seeded longer ones"""
    L = 2 if tier == "quick" else 3
    hist = []

    def rec(cfg, prefix, bins_track, backed, ugly, prev_ugly, depth):
        if depth == 0:
            return
        # bins / backed / ugly are tracked by actually running the real object on the prefix (cheap)
        for op in alphabet(None, backed, allow_remesh=not ugly):
            seq = prefix + [op]
            hist.append((cfg, seq))
            if depth > 1:
                js, out = run_history(cfg, seq)
                last = out["steps"][-1]
                if "exception" in last:
                    continue
                k = op["op"]
                prev = out["steps"][-2] if len(out["steps"]) > 1 else out["init"]
                nb, nu, npv = backed, ugly, prev_ugly
                if k == "backup": nb, npv = True, ugly
                if k == "reset" and op.get("rb"): nb = False
                if k == "change" and not op["reset"]:
                    nu = last["bounds"] != prev["bounds"]
                elif k == "adjust":
                    nu = last["psd"][:len(prev["psd"])] != prev["psd"] or last["bins"] < prev["bins"]
                elif k in ("update", "load", "loadfn", "reset") or (k == "change" and op["reset"]): nu = False
                elif k == "revert": nu = prev_ugly
                elif k == "settime": nu = True
                rec(cfg, seq, None, nb, nu, npv, depth - 1)

    for cfg in (CONFIGS if tier == "thorough" else CONFIGS[:3]):
        rec(cfg, [], None, False, False, False, L)
    # seeded longer histories (length 4-6) with at most one remesh per distribution
    nrand = 300 if tier == "quick" else 3000
    for _ in range(nrand):
        cfg = rng.choice(CONFIGS)
        seq, backed, ugly, prev_ugly = [], False, False, False
        for _ in range(rng.randint(4, 6)):
            op = rng.choice(alphabet(None, backed, allow_remesh=not ugly))
            seq.append(op)
            k = op["op"]
            if k == "backup": backed, prev_ugly = True, ugly
            elif k == "reset": backed = False
            if k == "change" and not op["reset"]: ugly = True
            elif k == "adjust": ugly = True
            elif k in ("update", "load", "loadfn", "reset") or (k == "change" and op["reset"]): ugly = False
            elif k == "revert": ugly = prev_ugly
            elif k == "settime": ugly = True
        hist.append((cfg, seq))
    # recorded histories whose class count changes between two records (both directions), then a load inside, before and after that
    # interval: record k is taken by the k-th update (logical time k)
    changes = [dict(op="change", a=Fr(0), b=Fr(6), n=2, reset=False), dict(op="change", a=Fr(0), b=Fr(12), n=3, reset=False),
               dict(op="change", a=Fr(0), b=Fr(20), n=4, reset=True), dict(op="add", k=1), dict(op="add", k=2), dict(op="reset", rb=True)]
    for cfg in CONFIGS[:3]:
        for ch in changes:
            for p1, p2 in ((4, 3), (3, 6)):
                for t in (Fr(1, 2), Fr(1), Fr(5, 4), Fr(3, 2), Fr(2), Fr(100)):
                    hist.append((cfg, [dict(op="recon"), dict(op="update", p=p1), dict(ch), dict(op="update", p=p2), dict(op="settime", t=t)]))
                hist.append((cfg, [dict(op="recon"), dict(op="update", p=p1), dict(ch), dict(op="update", p=p2), dict(op="settime", t=Fr(3, 2)), dict(op="add", k=1)]))
    # moment functions around every way of REPLACING the grid without changing the class count: re-mesh to another range with the
    # same number of classes, then back through a recorded state / the backup; moments are evaluated before, in between and after
    mo = dict(op="moments")
    same = [dict(op="change", a=Fr(0), b=Fr(12), n=0, reset=False), dict(op="change", a=Fr(0), b=Fr(6), n=0, reset=False)]
    for cfg in CONFIGS[:3]:
        for ch in same:
            for p1 in (4, 3):
                hist.append((cfg, [dict(op="recon"), dict(op="update", p=p1), mo, dict(ch), mo, dict(op="update", p=p1), mo, dict(op="settime", t=Fr(1)), mo]))
                hist.append((cfg, [dict(op="update", p=p1), mo, dict(op="backup"), dict(ch), mo, dict(op="revert"), mo]))
                hist.append((cfg, [dict(op="recon"), dict(op="update", p=p1), dict(ch), dict(op="update", p=p1), mo, dict(op="settime", t=Fr(3, 2)), mo, dict(op="reset", rb=True), mo]))
    # a grid with fewer classes than minBins: the dissolution branch of the automatic adjustment (regression: IndexError before fix c0cd1b2)
    for pz in (2, 5, 3, 4):
        hist.append((CONFIGS[5], [dict(op="update", p=pz), dict(op="adjust", chk=True), mo]))
        hist.append((CONFIGS[5], [dict(op="update", p=pz), dict(op="adjust", chk=True), dict(op="update", p=2), dict(op="adjust", chk=True), dict(op="adjust", chk=False)]))
    # operations that modify the distribution IN PLACE (normalisation, an update with the model's own array) right after a backup or a
    # recorded load: the backup / the record must still hold the distribution they were made from
    for cfg in CONFIGS[:3]:
        for p1 in (4, 1):
            for k in (0, 1, 3):
                hist.append((cfg, [dict(op="update", p=p1), dict(op="backup"), dict(op="normalize", k=k), dict(op="revert"), mo]))
                hist.append((cfg, [dict(op="update", p=p1), dict(op="backup"), dict(op="normalize", k=k), dict(op="add", k=1), dict(op="revert"), dict(op="normalize", k=k)]))
            hist.append((cfg, [dict(op="update", p=p1), dict(op="backup"), dict(op="selfupdate"), dict(op="revert"), mo]))
            hist.append((cfg, [dict(op="update", p=p1), dict(op="backup"), dict(op="normalize", k=3), dict(op="selfupdate"), dict(op="revert")]))
    # recording life cycle: every order of three recording operations followed by a query, on every configuration
    # (regression: enable, remove, query raised TypeError before fix 038111f)
    import itertools
    recops = [dict(op="recon"), dict(op="recoff"), dict(op="recreset"), dict(op="recremove"), dict(op="update", v=None)]
    for cfg in CONFIGS[:2]:
        for trio in itertools.product(recops, repeat=3):
            for t in (Fr(0), Fr(3, 2)):
                seq = [dict(o) for o in trio] + [dict(op="settime", t=t)]
                if any(o["op"] == "update" for o in seq):
                    continue
                hist.append((cfg, seq))
    return hist
