"""Generates /verif/MANIFEST.json from the table below (single source of truth)."""
import json, os, sys
HERE = os.path.dirname(os.path.dirname(os.path.abspath(__file__)))

CHECKS = {
 "C05": dict(cat="model_checking", design="3/C05", technique="TLA+ spec (Solver.tla) model-checked with TLC + trace validation of every solver callback of the real DESolver/GenericModel/Coupler against the spec's actions",
             text="Solver.tla mirrors DESolver.solve/_getdXdt/_updateX, both iterators, GenericModel.solve and Coupler callback by callback; TLC checks time contract, termination and shape agreement for every proposal sequence (NaN, inf, <=0, huge), stop schedule and layout change in the bounded model; the real code is driven by scripted models over the same alphabet (exhaustive short scripts + seeded long ones) and each execution is accepted event by event by Solver_Trace.tla with all invariants evaluated on it.",
             note="ticks are dyadic so float arithmetic is exact; minDtFrac>0; bounded spans (8-32 ticks), <=3 models; trusted: TLC, the scripted-model projection (integers only)"),
 "C06": dict(cat="model_checking", design="3/C06", technique="Butcher tableau and stage times extracted from the running iterator by a unit-vector probe; TLC (RungeKutta.tla, exact rationals) decides order conditions, c = A*1, documented tableau/times, cubic quadrature, state untouched",
             text="Order of accuracy is a theorem about (A,b,c); the tableau is extracted from the executing code, not transcribed, and TLC evaluates the 8 order conditions with the times the code really uses, so non-autonomous order is decided exactly rather than estimated from convergence plots.",
             note="iterator linear in derivative values; tableau entries rational with denominator <= 1000; trusted: TLC evaluation of Rat.tla"),
 "C07": dict(cat="model_checking", design="3/C07", technique="TLA+ transcription of the upwind transport (PBMTransport.tla) model-checked exhaustively by TLC over a small exact domain; real PopulationBalanceModel bound by TLC-as-evaluator equality on the same and larger inputs",
             text="Conservation (sum law), upwinding, nucleation class, per-face limiting, the total-loss limit of a class drained through both faces (beyond the stated clause), non-negativity under the step limit and the step-limit formula are invariants TLC checks on every distribution/growth field/nucleation term/dt of the 3-class rational domain; the code is bound to the transcription by equality of netFlux, dXdt, corrected values, step limit, dissolution index and nucleation class on the 3-class product and on seeded 4-10 class instances.",
             note="uniform grids; rational inputs; rtol 1e-9; cases whose exact evaluation overflows TLC's 32-bit integers are skipped and counted in evidence"),
 "C08": dict(cat="model_checking", design="3/C08", technique="TLA+ state machine of the size-class grid (PBM.tla) explored by TLC over all operation histories up to a bounded length; real PopulationBalanceModel bound by TLC-predicted attributes after every operation of the same histories",
             text="Grid consistency is an invariant and extension/re-mesh/adaptive/reset laws are action properties checked by TLC on every history of <=3-4 operations from several grids; the as-built re-mesh that loses a narrow spike is a named deviation (known finding). The code executes the same alphabet (all histories <=2-3, seeded 4-6) and every public attribute after every operation must equal the specification's exact prediction, which also decides purity of the moment functions.",
             note="tiny exact domain (grids from 0, <=6 classes, populations <=7, one re-mesh per distribution) because exact re-meshing overflows TLC's 32-bit rationals; revert only after a backup"),
 "C09": dict(cat="model_checking", design="3/C09", technique="TLA+ specs of the composition cache (HashTable.tla) and of query memoisation (ThermoCache.tla) model-checked by TLC; real objects bound by trace validation of query/cache-control histories",
             text="The cache clause is decided by HashTable.tla: TLC explores all enable/precision/clear/add/retrieve histories and HashTable_Trace.tla accepts an execution of the real HashTable only if every hit/miss, returned value and table size equals the specification's (keys are exact integers, so int32 wrap-around is visible). The purity clause for pycalphad-backed queries is decided by validating query histories against a memo specification.",
             note="domain points have float keys equal to their exact keys (self-checked); histories bounded (<=4 exhaustive, <=10 seeded)"),
 "C04": dict(cat="model_checking", design="3/C04", technique="TLA+ transcription of the diffusion model (Diffusion.tla: profile builders, setup, boundary conditions, fluxes, both iterators, clipping, solver loop) evaluated by TLC on each configuration with the conservation/boundary clauses checked on every step; real models bound by equality of the recorded run",
             text="Balance (telescoping with boundary fluxes), closed-system invariance across steps and across solve calls, fixed Dirichlet nodes and bounds are evaluated by TLC on its own exact run of every configuration; the real SinglePhaseModel driven by scripted thermodynamics must reproduce the predicted record (times and profiles) step by step, which binds the code to the checked transcription.",
             note="exact domain is coarse and dyadic (k/16 compositions, <=4 Euler steps or one RK4 step, <=6 nodes) because of TLC's 32-bit integers; homogenization model covered by conservation traces only"),
 "C01": dict(cat="model_checking", design="3/C01", technique="TLA+ trace acceptor (KWN_Trace.tla over KWN.tla) validating every accepted step of real PrecipitateModel runs: mass balance and precipitate content as three-way comparisons of logged moment sums",
             text="Every step of every run in the suite (scripted self-consistent thermodynamics; 1-2 phases, site types, volume ratios, iterators, solve-call splits, ramps, dissolution, re-meshing, faults) is an event whose mass-balance and weighted-third-moment comparisons the specification must accept; the comparison operands are computed by an observer from the recorded distribution and the table in force, independently of the code path that produced the recorded values.",
             note="real-valued identities enter the specification as lt/eq/gt under the fixed tolerance table (rtol 1e-8, one particle per class); exact arithmetic in TLC is not possible for these quantities (32-bit integers); scripted thermodynamics only"),
 "C02": dict(cat="model_checking", design="3/C02", technique="TLA+ trace acceptor (KWN_Trace.tla) on per-step comparisons of reported density/mean radius/fraction with moments of the recorded size distribution, and the density law between consecutive steps",
             text="Reported statistics are compared with M0, M1/M0 and r*v*M3 of the distribution recorded at that step, and M0 of each new distribution with M0 of the stored one plus nucRate*dt; the step result captured before the documented removal must have no class below zero and the stored distribution must equal it minus the classes holding less than one particle; the specification accepts only eq (resp. lt/eq), including on steps where the grid is extended or re-meshed.",
             note="truncation allowance of one particle per class; density law on Euler runs only; scripted thermodynamics"),
 "C03": dict(cat="fault_enumeration", design="3/C03", technique="TLA+ trace acceptor (KWN_Trace.tla) on well-formedness observations of every step, over a configuration suite and an exhaustive enumeration of backend-failure schedules injected through a scripted thermodynamics object",
             text="All schedules of <=2 failed driving-force equilibria among the first 8-14 backend calls x both iterators are executed on the real model, plus the configuration suite (fixed/adaptive grids with recording, site types, ramps out of the two-phase region, dissolution, repeated solve calls); each step must keep the 16 histories aligned, finite, in range, and each call must end at its requested time.",
             note="faults injected at the documented failure value (None, None) of getDrivingForce; other backend failure modes (multicomponent growth) belong to the multicomponent suite"),
 "C13": dict(cat="model_checking", design="3/C13", technique="TLA+ model of the lookup-refresh rule (MC_KWN.tla) checked by TLC over all temperature paths; KWN_Trace.tla binds real non-isothermal runs to the same Refresh operator via the temperatures at which the scripted backend is asked to build tables",
             text="LookupFresh is an invariant of the refresh rule over every heating/cooling/hold/reversal path on the lattice; on real runs the acceptor keeps the table stamp, predicts when a rebuild is due with the same operator, and requires the recorded temperature to equal the schedule, the table to be within maxTempChange, and the accumulator to match.",
             note="integer milli-kelvin temperatures; binary systems (the multicomponent path has no lookup table)"),
 "C19": dict(cat="model_checking", design="3/C19", technique="TLA+ model of condition latches and the stop formula (Stopping.tla) checked by TLC over all value trajectories; Stopping_Trace.tla validates real runs and TTPCalculator sweeps via a spy condition that snapshots every condition after every test",
             text="LatchMonotone, StopsAtFirst, LatchIsHistory, TimeInsideStep and ResetClears are checked on every trajectory of a 5-point lattice for or/and mixes of 1-3 conditions; real PrecipitateModel runs with the six condition classes (thresholds early/late/never/already met) and TTP sweeps are accepted only if the objects' latches, reported times and the stop decision agree with the specification's own latches computed from the recorded histories.",
             note="conditions installed before the run; scripted thermodynamics; times compared with rtol 1e-9"),
 "C11": dict(cat="model_checking", design="3/C11", technique="paired executions judged by a TLA+ acceptor (Equiv.tla): the same PrecipitateModel configuration with phases listed in two orders (and thermodynamic queries / diffusion runs with solutes in two orders), compared item by item after un-permuting",
             text="Every history, the time grid and the final size distributions of 2- and 3-phase runs (each step-size limit made binding in turn, both iterators, two solve calls) must be equal after un-permuting the phase axis; Equiv.tla accepts a pair only if every comparison is eq.",
             note="scripted thermodynamics for the phase-order part; rtol 1e-9 because sums over phases are re-associated"),
 "C17": dict(cat="model_checking", design="3/C17", technique="TLA+ transcription of the averaging rules and by-name post-processing (Homogenization.tla): bounds/ordering/permutation invariance model-checked exhaustively by TLC on a lattice; rule functions and computeHomogenizationFunction (scripted equilibrium) bound by TLC-evaluated exact values",
             text="The classical ordering and bounds, labyrinth relations, single-phase identity and permutation invariance are invariants over every mobility table x fraction vector of the lattice for 1-4 phases; the real rule functions must equal the exact values (also with undefined entries) and computeHomogenizationFunction must equal a fresh by-name evaluation for every post-process mode, stable-phase order/subset, repeated evaluation and option change with the cache on or off.",
             note="mobilities < 1/3; scripted equilibrium object; rtol 1e-9"),
 "C18": dict(cat="model_checking", design="3/C18", technique="TLA+ model of the strength combination rules and Zener-drag constraint (Strength.tla) checked exhaustively by TLC; real StrengthModel/GrainGrowthModel bound by TLC-evaluated exact results; coupled runs judged by the Equiv.tla acceptor",
             text="Non-negativity, the Taylor-factor-times-minimum rule and total >= parts are invariants over all branch-value vectors incl. negative/NaN/inf; drag never reverses/accelerates and freezes when strong over all integer growth x drag values; the real classes reproduce the exact results with injected branch values, the real formulas are classified on a radius x spacing lattice incl. zero and sub-core radii, and coupled runs must keep the strength history at n+1 entries, the grain clock equal to the host clock and the grain volume at 1 after every host step over several solve calls.",
             note="exponent-1 superposition in the exact part; edge/screw reductions and real-valued monotonicity not decided (partial claim, DESIGN 3/C18)"),
 "C20": dict(cat="model_checking", design="3/C20", technique="TLA+ model of surrogate delegation (Surrogate.tla, TLC over all train/query/reload histories) with Surrogate_Trace.tla validating real BinarySurrogate histories over a call-recording backend; save/load pairs judged by the Equiv.tla acceptor",
             text="DelegatesByName and TrainedIsLocal are invariants over every history; each executed history must show, per query, exactly one call of the same-named backend method with the same arguments and returned value when untrained, no backend call and reproduction of the training data when trained, and identical predictions after toJson/fromJson. Saved precipitation/diffusion models (save points after 1-3 solve calls, recording on/off, grids, iterators) must equal their reload into a fresh model item by item, and re-saving must be idempotent.",
             note="scripted binary backend; multicomponent curvature surrogate not covered; HomogenizationModel persistence shares DiffusionModel.toDict"),
 "C12": dict(cat="model_checking", design="3/C12", technique="TLA+ acceptors: KWN_Trace.tla judges the growth-sign law on every step of the precipitation suite; Scan.tla (a latch + order machine) judges ordered Gibbs-Thomson and supersaturation scans of the real Al-Zr database",
             text="Partial claim. Decided: growth-sign law (larger than the critical radius grows, smaller shrinks) on every step of every suite run with a fresh lookup table; on the real database the unstable sentinel is upward closed, x_alpha(g) is non-decreasing, dG(x_alpha(g)) = g within the documented offset, dG rises with supersaturation, changes sign at the planar solvus and the four methods agree in sign away from it.",
             note="real-valued relations as lt/eq/gt under fixed tolerances; scripted closure for the precipitation states; value agreement of the four methods for a stoichiometric precipitate not decided"),
 "C14": dict(cat="model_checking", design="3/C14", technique="TLA+ model of the cached geometric factors (NucParams.tla) checked by TLC over all setter/read histories, bound by history replay against fresh objects; KWN_Trace.tla for zero nucleation at non-positive driving force in runs; Sites.tla (site pools per kind of site shared by all phases of that kind, model-checked over all short occupy/dissolve/re-site histories) bound by Sites_Trace.tla to snapshots of the real _calcNucleationSites; SitePools.tla (the pools as cached functions of molar volume, composition, grain size and dislocation density, user-defined bulk density) bound by SitePools_Trace.tla to real MatrixParameters histories; Relations.tla acceptor for zero-propagation, clamps and Clemm-Fisher relations",
             text="Partial claim. Decided: cached factors follow every change (all read-set-read triples + seeded histories, direct and through PrecipitateParameters), rate = 0 whenever dG <= 0 on every step of the suite, zero propagation / Rcrit >= Rmin / incubation factor in [0,1] / scalar = array on a dG grid for 5 site types, available sites = max(pool of the phase's kind of site - occupation by all phases of that kind + parent surface, 0) in integer milli-units for 11 site assignments x 3 parent relations (hence non-negative, shared, non-increasing with occupation by any phase of the kind). Observed under fixed tolerances: Clemm-Fisher identities and monotonicities on a k-grid.",
             note="identities/monotonicities in k and dG are real-analytic facts judged as lt/eq/gt (observation level); known finding: negative barrier on grain-boundary-type sites under the minimum-radius clamp"),
 "C15": dict(cat="model_checking", design="3/C15", technique="TLA+ state machine of the ShapeFactor object (Shape.tla: description, aspect-ratio mode, finder, callbacks) checked by TLC over all short setter/query histories and bound by trace validation (Shape_Trace.tla) of every history of the same alphabet on real objects; the critical-radius bisection transcribed over exact rationals (Bisect.tla), its root property checked by TLC on a lattice and the real method bound by TLC-as-evaluator equality (same radius, same number of halvings); Relations.tla acceptor for the geometric identities",
             text="Partial claim. Decided with the specification: the finder always matches the aspect-ratio mode, aspect ratios below 1 are seen as 1 by the factor functions and a sphere ignores them, for every history of setters and queries; the bisection returns a root of R = Rs*factor(R) to its tolerance whenever one is bracketed (432-case lattice), and the real _findRcrit follows the transcription step for step on the lattice and on seeded dyadic cases. Observed under fixed tolerances (Relations.tla): unit volume and requested aspect ratio of the semi-axes, thermodynamic factor = spheroid area / sphere area and kinetic factor = capacitance / sphere radius (scipy quadrature as oracle), value 1 and monotone growth for needle and plate, continuity at aspect ratio 1 for every factor of every shape, scalar = array, below 1 = 1, caller's arrays untouched (float and integer), root of the search with real factor functions.",
             note="identities are real-analytic facts judged as lt/eq/gt (observation level); the bisection is bound for affine factor functions with dyadic coefficients; cuboidal semi-axes are taken as half-edges of a unit-volume cuboid (product 1), spheroid semi-axes as 4pi/3 abc = 1"),
 "C16": dict(cat="model_checking", design="3/C16", technique="TLA+ state machine of the StrainEnergy object (Elastic.tla: user inputs vs the derived, rotated data compute() works on) checked by TLC over all short setter/update/compute histories; real objects bound by trace validation (Elastic_Trace.tla) of every history of the same alphabet, with the held tensors identified by comparison with all candidates and the final energy compared with a canonically built object; Relations.tla acceptor for the stated identities",
             text="Partial claim. Decided with the specification: the energy does not depend on the order in which rotation, stiffness (6x6 or constants), shape and eigenstrain were supplied -- after every call of every history the tensors the object holds are those of the current inputs, and every compute equals that of a canonically built object. Observed under fixed tolerances (Relations.tla): non-negativity, cube/square scaling, 6x6 = 4th rank, both inversion routines, reduction to the homogeneous inclusion, isotropic-sphere closed form (Eshelby and spherical approximation), Eshelby tensor components, orientation independence, quadrature exactness up to the stated order, rank and modulus round trips.",
             note="identities are real-analytic facts judged as lt/eq/gt (observation level, cubic stiffness, diagonal and shear eigenstrains, rotations about z and general rotations); open finding: the Lebedev tables are expanded into wrong point sets (rules not exact; Eshelby components deviate with the default rule) -- repair would break three repository tests that pin the faulty values; named deviation outside the property: update() rotates the stored applied stress again on every call"),
}

NOT_APPLICABLE = {
 "C10": "real-analytic identities of pycalphad-evaluated functions (finite-difference agreement, eigenvalues, Darken relation): no state/history for a TLA+ model to explore, TLC cannot evaluate the functions (DESIGN 4)",
}
PENDING = "not yet claimed: specification/harness for this property is not built yet in this round (see DESIGN 8 build order)"


def build():
    props = [json.loads(l)["id"] for l in open(os.path.join(HERE, "properties.jsonl"))]
    checks = []
    for pid in props:
        if pid not in CHECKS:
            continue
        c = CHECKS[pid]
        checks.append({
            "property_id": pid,
            "quick_cmd": "bin/check %s --tier quick" % pid,
            "thorough_cmd": "bin/check %s --tier thorough" % pid,
            "evidence_file": "evidence/%s.json" % pid,
            "replay_cmd_template": "bin/check %s --replay {path}" % pid,
            "engine": "tlc",
            "level_claimed": {"category": c["cat"], "text": c["text"], "design_ref": c["design"]},
            "level_note": c["note"],
            "technique": c["technique"],
        })
    na = []
    for pid in props:
        if pid in CHECKS:
            continue
        na.append({"property_id": pid, "reason": NOT_APPLICABLE.get(pid, PENDING)})
    man = {
        "version": 1,
        "setup_cmd": "bin/setup",
        "hooks": {"guard": "KAWIN_VERIF", "enable": "no source hooks: all observation points are public extension points (scripted thermodynamics/models, coupling observers); bin/check exports KAWIN_VERIF=1 for completeness",
                  "baseline_off_cmd": "cd /repo && /venv/bin/python -m pytest -ra -q -p no:cacheprovider --timeout=900 --continue-on-collection-errors",
                  "source_commits": [], "add_only": True},
        "engines": [{"name": "tlc", "path": "bin/check", "serves_properties": sorted(CHECKS),
                     "kind_free_text": "TLA+ specifications in spec/ checked by TLC 1.8 (exhaustive, evaluator and trace-validation modes) bound to /repo by Python harnesses in harness/"}],
        "checks": checks,
        "not_applicable": na,
        "notes": "Every check rebuilds nothing: kawin is an editable install, /venv/bin/python imports /repo's working tree. Exit 2 = machinery failure (never a verdict). Genuine defects repaired in /repo are listed in known_findings.json as fixed.",
    }
    with open(os.path.join(HERE, "MANIFEST.json"), "w") as f:
        json.dump(man, f, indent=1)
    return man


if __name__ == "__main__":
    build()
    print("MANIFEST.json written")
