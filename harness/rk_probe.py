"""C06: extract the Butcher tableau and stage times from the running iterator."""
from fractions import Fraction
import numpy as np
from kawin.solver.Solver import DESolver, SolverType
from kawin.solver import Iterators
from kawin.GenericModel import GenericModel

SMAX = 6
BADR = [-999999, 1]


def frac(v, maxden=1000, tol=1e-12):
    try:
        f = Fraction(float(v)).limit_denominator(maxden)
    except Exception:
        return None
    if abs(float(f) - float(v)) > tol * max(1.0, abs(float(v))):
        return None
    return f


def fr(f):
    return BADR if f is None else [f.numerator, f.denominator]


class Probe(GenericModel):
    """answers the i-th derivative request with the unit vector e_i"""
    def __init__(self, t0, h, dim=SMAX):
        super().__init__()
        self.t0, self.h, self.dim = t0, h, dim
        self.calls = []
        self.x = np.zeros(dim)
        self.t = t0
        self.final = None

    def getCurrentX(self):
        return self.t, [self.x]

    def getdXdt(self, t, x):
        i = len(self.calls)
        self.calls.append((t, np.array(x[0], dtype=float).copy()))
        e = np.zeros(self.dim)
        if i < self.dim:
            e[i] = 1.0
        return [e]

    def getDt(self, dXdt):
        return self.h

    def postProcess(self, time, x):
        if self.final is None:
            self.final = (time, np.array(x[0], dtype=float).copy())
        self.t = time
        self.x = x[0]
        return x, True     # one step only


def extract(iterator_name, t0, h, via):
    """via = 'solve' (GenericModel.solve -> DESolver -> iterator) or 'direct' (iterator with DESolver's wrappers)"""
    st = SolverType.RK4 if iterator_name == "rk4" else SolverType.EXPLICITEULER
    pr = Probe(t0, h)
    intact = True
    if via == "solve":
        pr.solve(h, solverType=st, minDtFrac=2.0 ** -20, maxDtFrac=1)
        tnew, xnew = pr.final
    else:
        s = DESolver(st)
        s.setdXdtFunctions(pr.getdXdt, pr.correctdXdt, pr.getDt, pr.flattenX, pr.unflattenX)
        s._dtmin, s._dtmax = h * 2.0 ** -20, h
        s._X0 = [pr.x]
        xold = np.zeros(SMAX) + 0.0
        keep = xold.copy()
        xnew, dt = s.iterator(s._getdXdt, t0, xold, s._updateX)
        intact = bool(np.array_equal(xold, keep) and xold.tobytes() == keep.tobytes())
        tnew = t0 + dt
    S = len(pr.calls)
    A = [[fr(frac(pr.calls[i][1][j] / h)) for j in range(S)] for i in range(S)]
    b = [fr(frac(xnew[j] / h)) for j in range(S)]
    ct = [fr(frac((pr.calls[i][0] - t0) / h)) for i in range(S)]
    return dict(S=S, A=A, b=b, ct=ct, intact=intact, tnew=fr(frac((tnew - t0) / h)))


def alias_intact(iterator_name):
    """the iterator functions called the way DESolver calls them, with right-hand sides that hand back arrays the caller still owns:
    x' = x implemented as `return x` (the state vector itself) and x' = b implemented as `return b` (a stored array).  Neither the
    state vector nor the stored array may be modified, and the step must be the documented one."""
    from kawin.solver import Iterators
    it = Iterators.RK4Iterator if iterator_name == "rk4" else Iterators.ExplicitEulerIterator
    h = 0.125
    upd = lambda X_old, dXdt, dt: X_old + dXdt * dt
    out = {}
    # (1) f returns its argument
    x = np.array([1.0, 2.0])
    keep = x.copy()
    f1 = lambda t, X, first=False: (X, h) if first else X
    xnew, _ = it(f1, 0.0, x, upd)
    exact = keep * (1 + h + h ** 2 / 2 + h ** 3 / 6 + h ** 4 / 24) if iterator_name == "rk4" else keep * (1 + h)
    out["state"] = bool(np.array_equal(x, keep))
    out["step_alias"] = bool(np.allclose(xnew, exact, rtol=1e-13, atol=0))
    # (2) f returns a stored array
    bvec = np.array([1.0, 1.0])
    bkeep = bvec.copy()
    x2 = np.zeros(2)
    f2 = lambda t, X, first=False: (bvec, h) if first else bvec
    xnew2, _ = it(f2, 0.0, x2, upd)
    out["stored"] = bool(np.array_equal(bvec, bkeep))
    out["step_stored"] = bool(np.allclose(xnew2, h * bkeep, rtol=1e-13, atol=0))
    # (3) f fills ONE preallocated work array and hands it back on every call (x' = x, and the non-autonomous x' = t^3)
    buf = np.zeros(2)
    def f3(t, X, first=False):
        buf[:] = X
        return (buf, h) if first else buf
    x3 = np.array([1.0, 2.0])
    xnew3, _ = it(f3, 0.0, x3, upd)
    out["step_workbuf"] = bool(np.allclose(xnew3, exact, rtol=1e-13, atol=0) and np.array_equal(x3, keep))
    buf4 = np.zeros(1)
    def f4(t, X, first=False):
        buf4[:] = t ** 3
        return (buf4, h) if first else buf4
    xnew4, _ = it(f4, 1.0, np.zeros(1), upd)
    want4 = ((1 + h) ** 4 - 1) / 4 if iterator_name == "rk4" else h
    out["step_workbuf_t"] = bool(np.allclose(xnew4, want4, rtol=1e-13, atol=0))
    # (4) the same right-hand sides through DESolver's own wrappers with the default (identity, non-copying) flatten functions:
    #     one step from (x, t0) with proposed step h
    st = SolverType.RK4 if iterator_name == "rk4" else SolverType.EXPLICITEULER

    def one_step(f, x0, t0=0.0):
        s = DESolver(st, defaultDT=h)
        s.setdXdtFunctions(f, s.correctdXdtNotImplemented, s.defaultDtFunc, s.flattenXNotImplemented, s.unflattenXNotImplemented)
        s._dtmin, s._dtmax = h * 2.0 ** -20, h
        s._X0 = x0
        xn, dt = s.iterator(s._getdXdt, t0, x0, s._updateX)
        return xn, dt
    x5 = np.array([1.0, 2.0])
    xn5, _ = one_step(lambda t, X: X, x5)
    out["solver_state"] = bool(np.array_equal(x5, keep))
    out["solver_step_alias"] = bool(np.allclose(xn5, exact, rtol=1e-13, atol=0))
    rate = np.array([1.0, 1.0])
    xa, xb_ = np.zeros(2), None
    xn6, _ = one_step(lambda t, X: rate, xa)
    xn7, _ = one_step(lambda t, X: rate, np.array(xn6))            # a second step with the same stored rate array
    out["solver_stored"] = bool(np.array_equal(rate, bkeep))
    out["solver_step_stored"] = bool(np.allclose(xn6, h * bkeep, rtol=1e-13, atol=0) and np.allclose(xn7, 2 * h * bkeep, rtol=1e-13, atol=0))
    table = {}

    def f8(t, X):                        # memoised time-dependent rate (as a temperature schedule would produce): x' = t^3
        if t not in table:
            table[t] = np.array([t ** 3])
        return table[t]
    xn8, _ = one_step(f8, np.zeros(1), 1.0)
    xn9, _ = one_step(f8, np.zeros(1), 1.0)                       # the same step again with the memo filled
    out["solver_step_memo"] = bool(np.allclose(xn8, want4, rtol=1e-13, atol=0) and np.allclose(xn9, want4, rtol=1e-13, atol=0))
    return out


class Cubic(GenericModel):
    """x' = t^3, scalar-in-a-vector state; one step"""
    def __init__(self, t0, h):
        super().__init__()
        self.t, self.h, self.x, self.final = t0, h, np.zeros(1), None

    def getCurrentX(self):
        return self.t, [self.x]

    def getdXdt(self, t, x):
        return [np.array([float(t) ** 3])]

    def getDt(self, dXdt):
        return self.h

    def postProcess(self, time, x):
        if self.final is None:
            self.final = float(x[0][0])
        return x, True


def quad(iterator_name, t0, h, span=None):
    """x' = t^3 from t0 over `span` with the model proposing steps of h (span = h: one step; span = 1.5 h: a full step and a
    last step the solver has to shorten to land on the end time)"""
    st = SolverType.RK4 if iterator_name == "rk4" else SolverType.EXPLICITEULER
    m = Cubic(t0, h)
    if span is not None and span != h:
        m.postProcess = lambda time, x, m=m: (setattr(m, "final", float(x[0][0])), setattr(m, "t", time), setattr(m, "x", x[0]), (x, False))[-1]
    m.solve(h if span is None else span, solverType=st, minDtFrac=2.0 ** -20, maxDtFrac=1)
    f = Fraction(m.final)
    if abs(f.numerator) >= 2 ** 31 or f.denominator >= 2 ** 31:
        return BADR
    return [f.numerator, f.denominator]


H = [1, 2]; Z = [0, 1]; ONE = [1, 1]
DOC = {
    "rk4": dict(order=4, S=4, docA=[[Z, Z, Z, Z], [H, Z, Z, Z], [Z, H, Z, Z], [Z, Z, ONE, Z]],
                docb=[[1, 6], [1, 3], [1, 3], [1, 6]], docc=[Z, H, H, ONE]),
    "euler": dict(order=1, S=1, docA=[[Z]], docb=[ONE], docc=[Z]),
}
