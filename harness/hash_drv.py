"""Driver for the real diffusion HashTable (C09 cache clause)."""
import itertools
from fractions import Fraction as Fr
import numpy as np
from kawin.diffusion.DiffusionParameters import HashTable

# points: list of decimals (m, q) = m/10^q; last component is the temperature
POINTS = [((25, 2), (1000, 0)), ((125, 3), (1000, 0)), ((25, 1), (1000, 0)), ((375, 3), (1000, 0)),
          ((25, 2), (10005, 1)), ((25, 2), (1200, 0)), ((25, 2), (100, 0))]
POINTS3 = [((25, 2), (5, 1), (1000, 0)), ((5, 1), (25, 2), (1000, 0)), ((125, 3), (5, 1), (1000, 0)), ((25, 2), (5, 1), (1200, 0))]
PRECISIONS = [1, 2, 3, 7]


def val(d):
    return d[0] / (10.0 ** d[1])


def selfcheck():
    """the float key of every domain point equals the exact key (no truncation artefacts), so the
    specification's exact arithmetic is the right oracle for this domain"""
    for pts in (POINTS, POINTS3):
        for p in pts:
            for s in PRECISIONS + [4]:
                for d in p:
                    exact = (Fr(d[0], 10 ** d[1]) * 10 ** s).__floor__()
                    fl = int(np.array([val(d) * np.power(10, int(s))]).astype(np.int64)[0])
                    if exact != fl:
                        return "float key differs from exact key for %r at precision %d" % (d, s)
    return None


def run_history(ops):
    """ops: list of dicts; returns event list with observations"""
    h = HashTable()
    ev = [{"e": "init"}]
    nextv = 1
    for op in ops:
        k = op["e"]
        if k == "enable":
            h.enableCaching(op["b"]); ev.append({"e": "enable", "b": op["b"]})
        elif k == "sens":
            h.setHashSensitivity(op["s"]); ev.append({"e": "sens", "s": op["s"]})
        elif k == "clear":
            h.clearCache(); ev.append({"e": "clear"})
        else:
            p = op["p"]
            x = np.array([val(d) for d in p[:-1]])
            T = val(p[-1])
            pj = [[d[0], d[1]] for d in p]
            if k == "add":
                h.addToHashTable(x, T, nextv); nextv += 1
                ev.append({"e": "add", "p": pj, "size": len(h.cachedData)})
            else:
                r = h.retrieveFromHashTable(x, T)
                ev.append({"e": "get", "p": pj, "hit": r is not None, "v": int(r) if r is not None else 0})
    return ev


def gen(rng, tier):
    hist = []
    # targeted + exhaustive length-3 over a reduced alphabet, then seeded long histories
    for pts in (POINTS, POINTS3):
        base = [{"e": "enable", "b": False}, {"e": "enable", "b": True}, {"e": "clear"}] + \
               [{"e": "sens", "s": s} for s in PRECISIONS] + \
               [{"e": "add", "p": p} for p in pts] + [{"e": "get", "p": p} for p in pts]
        L = 3
        small = [o for o in base if o["e"] in ("enable", "clear", "sens")] + \
                [{"e": "add", "p": p} for p in pts[:3]] + [{"e": "get", "p": p} for p in pts[:3]]
        for seq in itertools.product(small, repeat=L):
            if any(o["e"] == "get" for o in seq) and any(o["e"] == "add" for o in seq):
                hist.append(list(seq))
        n = 400 if tier == "quick" else 4000
        for _ in range(n):
            hist.append([rng.choice(base) for _ in range(rng.randint(4, 10))])
    return hist


# ---------------------------------------------------------------------------------------------------------------------------
# the cache as the diffusion models use it (DiffCache_Trace.tla)
class _DTherm:
    """scripted single-phase thermodynamics: D is an injective function of (x, T); every call is logged"""
    def __init__(self, log, nsol):
        self.log, self.nsol = log, nsol

    def clearCache(self):
        pass

    def getInterdiffusivity(self, x, T, removeCache=True, phase=None):
        x = np.atleast_1d(np.asarray(x, dtype=float))
        self.log.append(("call", [float(v) for v in x], float(T)))
        base = 1e-12 * (1.0 + float(np.sum(x * np.arange(1, len(x) + 1))) + float(T) / 1000.0)
        return base if self.nsol == 1 else base * (np.eye(self.nsol) + 0.1)


XVALS = [(25, 2), (125, 3), (5, 1), (375, 3)]            # 0.25, 0.125, 0.5, 0.375
TVALS = [(1000, 0), (10005, 1), (1200, 0), (100, 0)]


def dec(d):
    return [d[0], d[1]]


def model_history(ops, nsol=1, N=5):
    """ops: control operations on the model's cache (useCache / setHashSensitivity / clearCache) and flux evaluations
    {"e": "eval", "x": [index into XVALS per node], "T": [index into TVALS per node]}"""
    from kawin.diffusion import SinglePhaseModel
    log = []
    els = ["A", "B", "C"][:nsol + 1]
    m = SinglePhaseModel([0.0, 1.0], N, els, ["PH"], thermodynamics=_DTherm(log, nsol))
    for e in els[1:]:
        m.setCompositionLinear(0.1, 0.1, e)
    m.setTemperature(1000)
    m.setup()
    h = m.hashTable
    oget, oadd = h.retrieveFromHashTable, h.addToHashTable
    ids = {}

    def key(v):
        return np.asarray(v, dtype=float).tobytes()

    def get(x, T):
        r = oget(x, T)
        log.append(("get", [float(v) for v in np.atleast_1d(x)], float(T), None if r is None else ids.get(key(r), -1)))
        return r

    def add(x, T, value):
        oadd(x, T, value)
        if h._cache:       # the identity of a stored value is the ordinal of the add that stored it (adds while switched off store nothing)
            ids[key(value)] = len([1 for e in log if e[0] == "add"]) + 1
        log.append(("add", [float(v) for v in np.atleast_1d(x)], float(T), len(h.cachedData)))
    h.retrieveFromHashTable, h.addToHashTable = get, add
    ev = [{"e": "init"}]
    vmap = {val(d): d for d in XVALS}
    tmap = {val(d): d for d in TVALS}

    def point(x, T):
        try:
            return [dec(vmap[v]) for v in x] + [dec(tmap[T])]
        except KeyError:
            return [[-1, 0]]
    try:
        for op in ops:
            k = op["e"]
            if k == "enable":
                m.useCache(op["b"]); ev.append({"e": "enable", "b": op["b"]})
            elif k == "sens":
                m.setHashSensitivity(op["s"]); ev.append({"e": "sens", "s": op["s"]})
            elif k == "clear":
                m.clearCache(); ev.append({"e": "clear"})
            else:
                xi, ti = op["x"], op["T"]
                x = np.array([[val(XVALS[j]) for j in xi]])
                if nsol > 1:       # second solute: another value of the decimal alphabet, sum below one
                    x = np.array([[val(XVALS[j]) for j in xi], [val(XVALS[(j + 1) % 2]) for j in xi]])
                Tn = np.array([val(TVALS[j]) for j in ti])
                m.setTemperatureFunction(lambda z, t, Tn=Tn: Tn)
                pts = [point(list(x[:, i]), float(Tn[i])) for i in range(N)]
                ev.append({"e": "eval", "pts": pts})
                n0 = len(log)
                m.getdXdt(0.0, [x])
                for entry in log[n0:]:
                    if entry[0] == "get":
                        ev.append({"e": "get", "p": point(entry[1], entry[2]), "hit": entry[3] is not None, "v": entry[3] if entry[3] is not None else 0})
                    elif entry[0] == "call":
                        ev.append({"e": "call", "p": point(entry[1], entry[2])})
                    else:
                        ev.append({"e": "add", "p": point(entry[1], entry[2]), "size": entry[3]})
                ev.append({"e": "evalend"})
    except Exception as ex:  # noqa
        ev.append({"e": "exception", "msg": "%s: %s" % (type(ex).__name__, str(ex)[:200])})
    return ev


def gen_model(rng, tier, N=5):
    """flux evaluations on profiles with flat stretches under per-node temperatures, interleaved with cache controls"""
    hist = []
    ctl = [{"e": "enable", "b": False}, {"e": "enable", "b": True}, {"e": "clear"}, {"e": "sens", "s": 2}, {"e": "sens", "s": 3}, {"e": "sens", "s": 7}]

    def ev(flat, tpat):
        if flat == "flat": xi = [0] * N
        elif flat == "step": xi = [0] * (N // 2) + [2] * (N - N // 2)
        elif flat == "ends": xi = [1] + [0] * (N - 2) + [3]
        else: xi = [rng.randrange(len(XVALS)) for _ in range(N)]
        if tpat == "iso": ti = [0] * N
        elif tpat == "gradient": ti = [i % len(TVALS) for i in range(N)]
        elif tpat == "close": ti = [0, 1] * N
        else: ti = [rng.randrange(len(TVALS)) for _ in range(N)]
        return {"e": "eval", "x": xi[:N], "T": ti[:N]}
    pats = [(f, t) for f in ("flat", "step", "ends", "rand") for t in ("iso", "gradient", "close", "rand")]
    for (f, t) in pats:
        for c in [None] + ctl:
            hist.append(([c] if c else []) + [ev(f, t), ev(f, t)])
            hist.append([ev(f, t)] + ([c] if c else []) + [ev(f, "gradient"), ev("step", t)])
    for _ in range(60 if tier == "quick" else 600):
        seq = []
        for _ in range(rng.randint(3, 6)):
            seq.append(rng.choice(ctl) if rng.random() < 0.35 else ev(*rng.choice(pats)))
        hist.append(seq)
    return hist
