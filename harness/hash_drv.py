"""Driver for the real diffusion HashTable (C09 cache clause)."""
import itertools
from fractions import Fraction as Fr
import numpy as np
from kawin.diffusion.DiffusionParameters import HashTable

# points: list of decimals (m, q) = m/10^q; last component is the temperature
POINTS = [((25, 2), (1000, 0)), ((125, 3), (1000, 0)), ((25, 1), (1000, 0)), ((375, 3), (1000, 0)),
          ((25, 2), (10005, 1)), ((25, 2), (1200, 0)), ((25, 2), (100, 0))]
POINTS3 = [((25, 2), (5, 1), (1000, 0)), ((5, 1), (25, 2), (1000, 0)), ((125, 3), (5, 1), (1000, 0)), ((25, 2), (5, 1), (1200, 0))]
PRECISIONS = [1, 2, 3, 7]


def val(d):
    return d[0] / (10.0 ** d[1])


def selfcheck():
    """the float key of every domain point equals the exact key (no truncation artefacts), so the
    specification's exact arithmetic is the right oracle for this domain"""
    for pts in (POINTS, POINTS3):
        for p in pts:
            for s in PRECISIONS + [4]:
                for d in p:
                    exact = (Fr(d[0], 10 ** d[1]) * 10 ** s).__floor__()
                    fl = int(np.array([val(d) * np.power(10, int(s))]).astype(np.int64)[0])
                    if exact != fl:
                        return "float key differs from exact key for %r at precision %d" % (d, s)
    return None


def run_history(ops):
    """ops: list of dicts; returns event list with observations"""
    h = HashTable()
    ev = [{"e": "init"}]
    nextv = 1
    for op in ops:
        k = op["e"]
        if k == "enable":
            h.enableCaching(op["b"]); ev.append({"e": "enable", "b": op["b"]})
        elif k == "sens":
            h.setHashSensitivity(op["s"]); ev.append({"e": "sens", "s": op["s"]})
        elif k == "clear":
            h.clearCache(); ev.append({"e": "clear"})
        else:
            p = op["p"]
            x = np.array([val(d) for d in p[:-1]])
            T = val(p[-1])
            pj = [[d[0], d[1]] for d in p]
            if k == "add":
                h.addToHashTable(x, T, nextv); nextv += 1
                ev.append({"e": "add", "p": pj, "size": len(h.cachedData)})
            else:
                r = h.retrieveFromHashTable(x, T)
                ev.append({"e": "get", "p": pj, "hit": r is not None, "v": int(r) if r is not None else 0})
    return ev


def gen(rng, tier):
    hist = []
    # targeted + exhaustive length-3 over a reduced alphabet, then seeded long histories
    for pts in (POINTS, POINTS3):
        base = [{"e": "enable", "b": False}, {"e": "enable", "b": True}, {"e": "clear"}] + \
               [{"e": "sens", "s": s} for s in PRECISIONS] + \
               [{"e": "add", "p": p} for p in pts] + [{"e": "get", "p": p} for p in pts]
        L = 3
        small = [o for o in base if o["e"] in ("enable", "clear", "sens")] + \
                [{"e": "add", "p": p} for p in pts[:3]] + [{"e": "get", "p": p} for p in pts[:3]]
        for seq in itertools.product(small, repeat=L):
            if any(o["e"] == "get" for o in seq) and any(o["e"] == "add" for o in seq):
                hist.append(list(seq))
        n = 400 if tier == "quick" else 4000
        for _ in range(n):
            hist.append([rng.choice(base) for _ in range(rng.randint(4, 10))])
    return hist
