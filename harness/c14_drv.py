"""Drivers for C14: cached nucleation factors follow every change; zero propagation / clamps; Clemm-Fisher relations; site accounting."""
import itertools, math
import numpy as np
from kawin.precipitation.parameters.Nucleation import NucleationBarrierParameters
from kawin.precipitation.PrecipitationParameters import PrecipitateParameters, MatrixParameters
from kawin.precipitation.parameters.Volume import VolumeParameter
import kawin.precipitation.NucleationRate as nf
from .kwn_drv import cmp3

SITES = ["bulk", "dislocations", "grain boundaries", "grain edges", "grain corners"]
FACTORS = ["GBk", "areaFactor", "volumeFactor", "gbRemoval", "areaRemoval"]
GAMMAS = [0.1, 0.25]
GBES = [0.0, 0.05, 0.12]     # k = gbE / (2 gamma) stays below every site type's admissible limit


def rel(group, name, a, b, want, rtol=1e-9, atol=0.0):
    return {"e": "rel", "group": group, "name": name, "c": cmp3(float(a), float(b), rtol=rtol, atol=atol), "want": want}


def fresh_factor(gamma, gbe, site, f):
    n = NucleationBarrierParameters(site=site, gamma=gamma, gbEnergy=gbe)
    return float(getattr(n, f))


def factor_history(ops, through="direct"):
    """ops: ("gamma", v) | ("gbe", v) | ("site", s) | ("read", f).  Every read is compared with a fresh object's factor."""
    ev = [{"e": "init"}]
    cur = {"gamma": GAMMAS[0], "gbe": GBES[1], "site": "grain boundaries"}
    try:
        if through == "direct":
            n = NucleationBarrierParameters(site=cur["site"], gamma=cur["gamma"], gbEnergy=cur["gbe"])
            setg = lambda v: setattr(n, "gamma", v)
        else:
            pp = PrecipitateParameters("beta")
            pp.gamma = cur["gamma"]
            pp.nucleation.gbEnergy = cur["gbe"]
            pp.nucleation.setNucleationType(cur["site"])
            n = pp.nucleation
            setg = lambda v: setattr(pp, "gamma", v)      # goes through PrecipitateParameters.validate
        for op in ops:
            if op[0] == "gamma": setg(op[1]); cur["gamma"] = op[1]
            elif op[0] == "gbe": n.gbEnergy = op[1]; cur["gbe"] = op[1]
            elif op[0] == "site": n.setNucleationType(op[1]); cur["site"] = op[1]
            else:
                got = float(getattr(n, op[1]))
                ev.append(rel("C14:cached-factor-follows-setters", "%s after %s" % (op[1], [o[0] for o in ops]), got, fresh_factor(cur["gamma"], cur["gbe"], cur["site"], op[1]), "eq"))
    except Exception as ex:  # noqa
        ev.append({"e": "exception", "msg": "%s: %s" % (type(ex).__name__, str(ex)[:200])})
    return ev


def model_factor_history(ops):
    """the same through a PrecipitateModel: setGrainBoundaryEnergy / setInterfacialEnergy / setNucleationSite followed by
    reset() + setup() (setup hands the matrix's grain boundary energy to every precipitate); reads are taken from the model's own
    precipitate parameters and compared with a fresh object"""
    from . import kwn_drv as K
    ev = [{"e": "init"}]
    cur = {"gamma": GAMMAS[0], "gbe": GBES[1], "site": "grain boundaries"}
    try:
        cfg = dict(phases=[dict(name="beta", gamma=cur["gamma"], site=cur["site"])], D=1e-16, gb=cur["gbe"], calls=[(1.0, 0.5)])
        m, th, obs = K.build(cfg)
        m.setup()
        n = m.precipitateParameters[0].nucleation
        float(n.areaFactor)       # the factors have been evaluated once before anything changes
        for op in ops:
            if op[0] == "gamma": m.setInterfacialEnergy(op[1], "beta"); cur["gamma"] = op[1]
            elif op[0] == "gbe": m.setGrainBoundaryEnergy(op[1]); cur["gbe"] = op[1]
            elif op[0] == "site": m.setNucleationSite(op[1], "beta"); cur["site"] = op[1]
            else:
                m.reset(); m.setup()
                got = float(getattr(m.precipitateParameters[0].nucleation, op[1]))
                ev.append(rel("C14:cached-factor-follows-setters(model)", "%s after %s" % (op[1], [(o[0], o[1]) for o in ops if o[0] != "read"]), got,
                              fresh_factor(cur["gamma"], cur["gbe"], cur["site"], op[1]), "eq"))
    except Exception as ex:  # noqa
        ev.append({"e": "exception", "msg": "%s: %s" % (type(ex).__name__, str(ex)[:200])})
    return ev


def gen_model_factor_histories():
    hist = []
    sites = [s for s in SITES if s not in ("bulk", "dislocations")]
    for gbe in GBES:
        for f in ("areaFactor", "volumeFactor", "gbRemoval"):
            hist.append([("gbe", gbe), ("read", f)])
            hist.append([("read", f), ("gbe", gbe), ("read", f)])
    for s2 in sites:
        hist.append([("read", "volumeFactor"), ("site", s2), ("gbe", 0.0), ("read", "volumeFactor"), ("gbe", 0.12), ("read", "areaFactor")])
    hist.append([("read", "areaFactor"), ("gamma", GAMMAS[1]), ("read", "areaFactor"), ("gbe", 0.0), ("read", "areaFactor")])
    return hist


def gen_factor_histories(rng, tier):
    setters = [("gamma", g) for g in GAMMAS] + [("gbe", e) for e in GBES] + [("site", s) for s in SITES]
    reads = [("read", f) for f in FACTORS]
    hist = []
    # read, change one parameter, read again: all (first read, setter, second read) combinations
    for r1, s, r2 in itertools.product(reads, setters, reads):
        hist.append([r1, s, r2])
    for _ in range(100 if tier == "quick" else 1000):
        hist.append([rng.choice(setters + reads + reads) for _ in range(rng.randint(3, 7))])
    return hist


def make_precipitate(site="bulk", gamma=0.1, gbe=0.3, vm=1e-5):
    pp = PrecipitateParameters("beta")
    pp.gamma = gamma
    pp.volume.setVolume(vm, VolumeParameter.MOLAR_VOLUME, 4)
    pp.nucleation.setNucleationType(site)
    pp.nucleation.gbEnergy = gbe
    return pp


def nucleation_relations():
    """zero propagation, clamps, finiteness, monotonicity in driving force / time, Clemm-Fisher identities"""
    ev = [{"e": "init"}]
    mp = MatrixParameters(["B"])
    mp.volume.setVolume(1e-5, VolumeParameter.MOLAR_VOLUME, 4)
    T = 800.0
    try:
        for site in SITES:
            for gbe in ((0.0, 0.1) if site in ("bulk", "dislocations") else (0.0, 0.05, 0.15)):
                pp = make_precipitate(site, 0.1, gbe)
                tag = "%s,gbE=%g" % (site, gbe)
                dGs = np.array([-1e9, -1.0, 0.0, 1e6, 1e8, 5e8, 1e9, 5e9])
                Rc, Gc = nf.nucleationBarrier(dGs, pp)
                Z = nf.zeldovich(T * np.ones(len(dGs)), Rc, pp)
                beta = np.where(Rc != 0, pp.nucleation.areaFactor * Rc ** 2 * 0.01 * 1e-18 / 4e-10 ** 4, 0.0)     # betaBinary1's formula with scripted D
                tau = nf.incubationTime(beta, Z, mp)
                rate = nf.nucleationRate(Z, beta, Gc, T * np.ones(len(dGs)), tau, time=np.inf)
                for i, dg in enumerate(dGs):
                    allq = {"Rcrit": Rc[i], "Gcrit": Gc[i], "Z": Z[i], "beta": beta[i], "tau": tau[i], "rate": rate[i]}
                    for k, v in allq.items():
                        ev.append({"e": "rel", "group": "C14:finite-and-nonnegative", "name": "%s(%s,dG=%g)" % (k, tag, dg),
                                   "c": "eq" if (math.isfinite(v) and v >= 0) else "nan", "want": "eq"})
                        if dg <= 0:
                            ev.append(rel("C14:zero-for-nonpositive-dG", "%s(%s,dG=%g)" % (k, tag, dg), v, 0.0, "eq"))
                    if dg > 0:
                        ev.append(rel("C14:Rcrit>=Rmin", "Rcrit(%s,dG=%g)" % (tag, dg), Rc[i], pp.Rmin, "ge"))
                    # scalar call agrees with the array call
                    rs, gs = nf.nucleationBarrier(float(dg), pp)
                    ev.append(rel("C14:scalar=array", "Rcrit(%s,dG=%g)" % (tag, dg), float(rs), Rc[i], "eq"))
                    ev.append(rel("C14:scalar=array", "Gcrit(%s,dG=%g)" % (tag, dg), float(gs), Gc[i], "eq"))
                pos = [i for i, d in enumerate(dGs) if d > 0]
                for a, b in zip(pos[:-1], pos[1:]):
                    ev.append(rel("C14:rate-nondecreasing-in-dG", "rate(%s) dG %g->%g" % (tag, dGs[a], dGs[b]), rate[b], rate[a], "ge", rtol=1e-12))
                # incubation factor in [0, 1] and rising with time
                i0 = pos[2]
                prev = None
                for t in (0.0, 1e-3, 1.0, 1e3, 1e9, np.inf):
                    with np.errstate(all="ignore"):
                        r_t = float(nf.nucleationRate(Z[i0], beta[i0], Gc[i0], T, tau[i0], time=t))
                    ss = float(rate[i0])
                    fac = r_t / ss if ss > 0 else 0.0
                    ev.append({"e": "rel", "group": "C14:incubation-factor-in-[0,1]", "name": "t=%g (%s)" % (t, tag), "c": "eq" if 0.0 <= fac <= 1.0 + 1e-12 else "gt", "want": "eq"})
                    if prev is not None:
                        ev.append(rel("C14:incubation-factor-rises-with-time", "t=%g (%s)" % (t, tag), fac, prev, "ge", rtol=1e-12))
                    prev = fac
        # Clemm-Fisher geometric factors over the admissible k range
        from kawin.precipitation.parameters.Nucleation import GrainBoundaryDescription, GrainEdgeDescription, GrainCornerDescription, BulkDescription
        sph_a, sph_v = 4 * np.pi, 4 * np.pi / 3
        for D in (GrainBoundaryDescription(), GrainEdgeDescription(), GrainCornerDescription()):
            kmax = float(D.maxRatio)
            ks = np.linspace(0.0, kmax * 0.98, 13)
            a, v, rm = D.areaFactor(ks), D.volumeFactor(ks), D.gbRemoval(ks)
            ev.append(rel("C14:factors-reduce-to-sphere-at-k=0", "%s area" % D.name, a[0], sph_a, "eq", rtol=1e-9))
            ev.append(rel("C14:factors-reduce-to-sphere-at-k=0", "%s volume" % D.name, v[0], sph_v, "eq", rtol=1e-9))
            for i, k in enumerate(ks):
                for nm, val in (("area", a[i]), ("volume", v[i]), ("removal", rm[i])):
                    ev.append({"e": "rel", "group": "C14:factors-nonnegative", "name": "%s %s k=%.3f" % (D.name, nm, k), "c": "eq" if (math.isfinite(val) and val >= -1e-12) else "lt", "want": "eq"})
                ev.append(rel("C14:area-2k*removal=3*volume", "%s k=%.3f" % (D.name, k), a[i] - 2 * k * rm[i], 3 * v[i], "eq", rtol=1e-9, atol=1e-12))
                if i > 0:
                    ev.append(rel("C14:volume-factor-decreases-with-k", "%s k=%.3f" % (D.name, k), v[i], v[i - 1], "le", rtol=1e-12))
            # Rcrit equals the sphere's and Gcrit = spherical barrier * volume factor / (4 pi / 3)
            for k in (0.3 * kmax, 0.8 * kmax):
                gamma = 0.1
                n = NucleationBarrierParameters(site=D, gamma=gamma, gbEnergy=2 * gamma * k)
                dG = 1e9
                ev.append(rel("C14:Rcrit-equals-sphere", "%s k=%.3f" % (D.name, k), n.Rcrit(dG), 2 * gamma / dG, "eq", rtol=1e-9))
                Gs = (4 * np.pi / 3) * gamma * (2 * gamma / dG) ** 2
                ev.append(rel("C14:Gcrit=spherical*volumeFactor/(4pi/3)", "%s k=%.3f" % (D.name, k), n.Gcrit(dG, n.Rcrit(dG)), Gs * float(n.volumeFactor) / (4 * np.pi / 3), "eq", rtol=1e-9))
    except Exception as ex:  # noqa
        ev.append({"e": "exception", "msg": "%s: %s" % (type(ex).__name__, str(ex)[:200])})
    return ev


def zero_driving_force_relations():
    """model level: a step evaluated at EXACTLY zero driving force (and just below) right after a step with nucleation must record a
    zero rate, critical radius and barrier -- nothing may be carried over from the previous step"""
    from . import kwn_drv as K
    ev = [{"e": "init"}]
    try:
        for site in ("bulk", "dislocations", "grain boundaries"):
            cfg = dict(phases=[dict(name="beta", gamma=0.05, site=site)], D=1e-16, gb=0.03, x0=0.02, calls=[(1.0, 0.5)])
            m, th, obs = K.build(cfg)
            m.setup()
            x = [np.zeros(m.PBM[0].bins)]
            Y = m.pData.copySlice(m.pData.n)
            Y = m._calcNucleationRate(1.0, x, Y)
            ev.append({"e": "rel", "group": "C14:zero-driving-force(model step)", "name": "%s: precondition, rate > 0 at positive driving force" % site,
                       "c": "eq" if float(Y.nucRate[0, 0]) > 0 else "lt", "want": "eq"})
            xe = float(th.xe(1000.0, "beta"))
            for label, comp in (("dG = 0", xe), ("dG slightly negative", xe - 1e-6)):
                Y.composition[0] = comp
                Y2 = m._calcNucleationRate(2.0, x, Y)
                for k in ("nucRate", "Rcrit", "Gcrit"):
                    ev.append(rel("C14:zero-driving-force(model step)", "%s %s %s" % (site, label, k), float(getattr(Y2, k)[0, 0]), 0.0, "eq"))
    except Exception as ex:  # noqa
        ev.append({"e": "exception", "msg": "%s: %s" % (type(ex).__name__, str(ex)[:200])})
    return ev


def limit_relations():
    """energy ratio k exactly AT the limit of each grain-boundary type site (the first value that is not admissible: the message of the
    validation says "must be below"): the object either refuses it or returns non-negative factors and a critical radius >= Rmin"""
    ev = [{"e": "init"}]
    limits = {"grain boundaries": 1.0, "grain edges": math.sqrt(3) / 2, "grain corners": math.sqrt(2.0 / 3.0)}
    for site, kmax in limits.items():
        for gamma in (0.15, 0.2):
            for frac, want_ok in ((1.0, None), (0.999, True), (0.99, True), (1.0 + 1e-9, False)):      # (the factors lose all digits within ~1e-6 of the limit: not probed)
                name = "%s gamma=%g k=%.10g*limit" % (site, gamma, frac)
                try:
                    n = NucleationBarrierParameters(site=site, gamma=gamma, gbEnergy=2 * gamma * kmax * frac)
                    vals = [float(getattr(n, f)) for f in ("areaFactor", "volumeFactor", "gbRemoval", "areaRemoval")]
                    rc = float(n.Rcrit(1e8))
                    ok = all(math.isfinite(v) and v >= 0 for v in vals) and math.isfinite(rc) and rc >= 0
                    outcome = "accepted-valid" if ok else "accepted-invalid(%s, Rcrit=%g)" % (["%.3g" % v for v in vals], rc)
                except ValueError:
                    outcome = "rejected"
                except Exception as ex:  # noqa
                    outcome = "crash:%s" % type(ex).__name__
                good = outcome in ("accepted-valid", "rejected") if want_ok is None else (outcome == ("accepted-valid" if want_ok else "rejected"))
                ev.append({"e": "rel", "group": "C14:limit-of-admissible-ratio", "name": "%s -> %s" % (name, outcome), "c": "eq" if good else "lt", "want": "eq"})
    return ev


def site_accounting():
    """available nucleation sites decrease as precipitates occupy sites and are never negative (all five site types, competing phases)"""
    from . import kwn_drv as K
    ev = [{"e": "init"}]
    try:
        for site in SITES:
            cfg = dict(phases=[dict(name="beta", gamma=0.05, site=site), dict(name="gamma", gamma=0.06, site=site, xe0=0.004)], D=1e-16, gb=0.03,
                       calls=[(1.0, 0.5)], bulkN0=1e24, grainSize=1, disl=1e14)
            m, th, obs = K.build(cfg)
            m.setup()
            t = 0.0
            prev = None
            for dens in (0.0, 1e10, 1e18, 1e22, 1e24, 1e26, 1e30):
                x = []
                for p in range(2):
                    psd = np.zeros(m.PBM[p].bins)
                    psd[40:60] = dens / 20.0
                    x.append(psd)
                s0, s1 = float(m._calcNucleationSites(t, x, 0)), float(m._calcNucleationSites(t, x, 1))
                for nm, s in (("beta", s0), ("gamma", s1)):
                    ev.append({"e": "rel", "group": "C14:sites-nonnegative", "name": "%s %s dens=%g" % (site, nm, dens), "c": "eq" if (math.isfinite(s) and s >= 0) else "lt", "want": "eq"})
                if prev is not None:
                    ev.append(rel("C14:sites-decrease-with-occupation", "%s dens=%g" % (site, dens), s0, prev, "le", rtol=1e-12))
                prev = s0
    except Exception as ex:  # noqa
        ev.append({"e": "exception", "msg": "%s: %s" % (type(ex).__name__, str(ex)[:200])})
    return ev


# ---------------------------------------------------------------------------------------------------------------------------
# site pools per kind of site (Sites.tla / Sites_Trace.tla)
KIND_SETS = [("bulk",) * 3, ("dislocations",) * 3, ("grain boundaries",) * 3, ("grain edges",) * 3, ("grain corners",) * 3,
             ("bulk", "dislocations", "bulk"), ("dislocations", "dislocations", "grain boundaries"), ("grain edges", "grain corners", "grain edges"),
             ("grain boundaries", "bulk", "grain boundaries"), ("dislocations", "bulk", "dislocations"), ("grain corners", "grain corners", "bulk")]
PARENTS = [{}, {2: [0]}, {1: [0], 2: [0, 1]}]
from kawin.Constants import AVOGADROS_NUMBER as AVO      # the library's own value (6.022e23): the unit, not the law, is at stake


def site_snapshots(tier="quick"):
    """every (site assignment, parent relation): precipitates are added phase by phase; after every addition the sites the model
    offers each phase are logged together with the documented measures of every distribution (integer milli-units per kind)"""
    from . import kwn_drv as K
    traces, labels = [], []
    names = ["beta", "gamma", "delta"]
    for kinds in KIND_SETS:
        for par in PARENTS:
            ev = [{"e": "init"}]
            lab = "sites:%s parents=%s" % ("/".join(kinds), par)
            try:
                cfg = dict(phases=[dict(name=nm, gamma=0.05 + 0.01 * i, site=kd, xe0=0.005 - 0.0005 * i, VmB=1e-5 * (1 + 0.1 * i)) for i, (nm, kd) in enumerate(zip(names, kinds))],
                           D=1e-16, gb=0.03, calls=[(1.0, 0.5)], bulkN0=1e24, grainSize=1, disl=1e14)
                m, th, obs = K.build(cfg)
                for child, ps in par.items():
                    m.setParentPhases(names[child], [names[q] for q in ps])
                m.setup()
                ns = m.matrixParameters.nucleationSites
                vma = m.matrixParameters.volume.Vm
                pools = {"bulk": ns.bulkN0, "dislocations": ns.dislocationN0, "grain boundaries": ns.GBareaN0, "grain edges": ns.GBedgeN0, "grain corners": ns.GBcornerN0}
                unit = {k: float(v) / 1000.0 for k, v in pools.items()}
                nuc = [m.precipitateParameters[q].nucleation for q in range(3)]

                def own(q, psd):
                    r = np.asarray(m.PBM[q].PSDsize, dtype=float)
                    n = np.asarray(psd, dtype=float)
                    M0, M1, M2 = float(np.sum(n)), float(np.sum(n * r)), float(np.sum(n * r * r))
                    line, area = M1 * (AVO / vma) ** (1 / 3), M2 * (AVO / vma) ** (2 / 3)
                    return {"bulk": M0, "grain corners": M0, "dislocations": line, "grain edges": math.sqrt(1 - float(nuc[q].GBk) ** 2) * line,
                            "grain boundaries": float(nuc[q].gbRemoval) * area}[kinds[q]], M2
                x = [np.zeros(m.PBM[q].bins) for q in range(3)]
                shape = np.zeros(m.PBM[0].bins); shape[40:60] = 1.0
                per = [own(q, shape)[0] for q in range(3)]          # occupation per unit density of the test shape
                for step in range(13):
                    if step > 0:
                        q = (step - 1) % 3
                        x[q] = x[q] + shape * (0.13 + 0.02 * step) * pools[kinds[q]] / per[q]
                    mom, surf_to = [], []
                    for q in range(3):
                        o, _ = own(q, x[q])
                        u = int(round(o / unit[kinds[q]]))
                        mom.append([u, u, u])       # the three measures of Sites.tla in the unit of the phase's own kind: only the own-kind one is ever read
                    for p_ in range(3):
                        row = []
                        for q in par.get(p_, []):
                            M2 = own(q, x[q])[1]
                            row.append(int(round(4 * math.pi * M2 * (AVO / m.precipitateParameters[q].volume.Vm) ** (2 / 3) / unit[kinds[p_]])))
                        surf_to.append(row)
                    obsv = [float(m._calcNucleationSites(0.0, x, p_)) for p_ in range(3)]
                    ev.append({"e": "sites", "name": "%s step %d" % (lab, step), "kinds": list(kinds), "mom": mom, "surfTo": surf_to,
                               "pool": {k: 1000 for k in pools}, "parents": [[q + 1 for q in par.get(p_, [])] for p_ in range(3)],
                               "obs": [int(round(o / unit[kinds[p_]])) if math.isfinite(o) and abs(o / unit[kinds[p_]]) < 2e9 else -999999 for p_, o in enumerate(obsv)],
                               "tol": 5, "grow": step > 0})
            except Exception as ex:  # noqa
                ev.append({"e": "exception", "msg": "%s: %s" % (type(ex).__name__, str(ex)[:200])})
            traces.append(ev); labels.append(lab)
    return labels, traces


# ---------------------------------------------------------------------------------------------------------------------------
# the pools themselves: derived from the matrix parameters, cached, bulk pool overridable (SitePools.tla / SitePools_Trace.tla)
PVM = {1: 1.0e-5, 2: 2.0e-5}
PX0 = {1: 0.01, 2: 0.03}       # chosen so that no two (composition, volume) pairs give the same automatic bulk density
PGRAIN = {1: 50.0, 2: 100.0}
PDISL = {1: 1.0e12, 2: 1.0e14}
PBULK = {7: 1.0e20}
POOLS = {"disl": "dislocationN0", "gbarea": "GBareaN0", "gbedge": "GBedgeN0", "gbcorner": "GBcornerN0"}
POOL_ALPHABET = ([("vm", v) for v in PVM] + [("x0", x) for x in PX0] + [("bulk", 7)] + [("grain", g) for g in PGRAIN] + [("disl", d) for d in PDISL]
                 + [("read", p) for p in list(POOLS) + ["bulk"]])


def _pool_formula(ns, pool, vm, grain, disl):
    g = PGRAIN[grain] * 1e-6 if grain else None
    if pool == "disl": return PDISL[disl] * (AVO / PVM[vm]) ** (1 / 3)
    if pool == "gbarea": return ns.grainBoundaryDensity(g, 1) * (AVO / PVM[vm]) ** (2 / 3)
    if pool == "gbedge": return ns.grainEdgeDensity(g, 1) * (AVO / PVM[vm]) ** (1 / 3)
    return ns.grainCornerDensity(g, 1)


def pool_history(ops, grain0=2, disl0=1):
    from kawin.precipitation.PrecipitationParameters import MatrixParameters
    ev = [{"e": "init", "grain": grain0, "disl": disl0}]
    try:
        m = MatrixParameters(["B"])
        ns = m.nucleationSites
        ns.setGrainSize(PGRAIN[grain0], 1)
        ns.setDislocationDensity(PDISL[disl0])
        cur = {"vm": 0}
        for (op, arg) in ops:
            e = {"e": "op", "op": op, "arg": arg}
            if op == "vm":
                m.volume.setVolume(PVM[arg], VolumeParameter.MOLAR_VOLUME, 4); cur["vm"] = arg
            elif op == "x0": m.initComposition = PX0[arg]
            elif op == "bulk": ns.setBulkDensity(PBULK[arg])
            elif op == "grain": ns.setGrainSize(PGRAIN[arg], 1)
            elif op == "disl": ns.setDislocationDensity(PDISL[arg])
            else:
                if arg != "bulk" and arg != "gbcorner" and cur["vm"] == 0:
                    continue          # documented error (volume needed): not part of the histories
                if arg == "bulk":
                    v = ns.bulkN0
                    got = ["unset"]
                    if v is not None:
                        if any(abs(float(v) - b) <= 1e-9 * b for b in PBULK.values()):
                            got = ["user", [k for k, b in PBULK.items() if abs(float(v) - b) <= 1e-9 * b][0]]
                        else:
                            got = ["unknown"]
                            for x, xv in PX0.items():
                                for vmk, vmv in PVM.items():
                                    if abs(float(v) - xv * AVO / vmv) <= 1e-9 * float(v):
                                        got = ["auto", x, vmk]
                else:
                    v = float(getattr(ns, POOLS[arg]))
                    got = [-1, -1]
                    for vmk in PVM:
                        for k2 in (PDISL if arg == "disl" else PGRAIN):
                            want = _pool_formula(ns, arg, vmk, k2 if arg != "disl" else None, k2 if arg == "disl" else None)
                            if abs(v - want) <= 1e-9 * want:
                                got = [0 if arg == "gbcorner" else vmk, k2]
                e["got"] = got
            ev.append(e)
    except Exception as ex:  # noqa
        ev.append({"e": "exception", "msg": "%s: %s" % (type(ex).__name__, str(ex)[:200])})
    return ev


def gen_pool_histories(rng, tier):
    hist = []
    L = 3 if tier == "quick" else 4
    setters = [o for o in POOL_ALPHABET if o[0] != "read"]
    reads = [o for o in POOL_ALPHABET if o[0] == "read"]
    # read, change one parameter, read again -- after a volume has been set
    for v0 in PVM:
        for r1, s, r2 in itertools.product(reads, setters, reads):
            hist.append([("vm", v0), ("x0", 1), r1, s, r2])
    for _ in range(300 if tier == "quick" else 3000):
        hist.append([rng.choice(POOL_ALPHABET) for _ in range(rng.randint(3, 8))])
    return hist



def steady_state_relations():
    """computeSteadyStateNucleation on a scripted binary backend, with both binary impingement functions, scalar and array compositions,
    every site type: impingement rate / incubation time / rate finite and non-negative, array = point by point, rate non-decreasing
    with the driving force.  Events for Relations.tla."""
    import math
    from .fakes import FakeBinaryTherm
    from kawin.precipitation import NucleationRate as nr
    from kawin.precipitation.PrecipitationParameters import PrecipitateParameters, MatrixParameters
    ev = [{"e": "init"}]
    xs = np.array([0.004, 0.006, 0.01, 0.02, 0.03])            # xe = 0.005: the first is undersaturated
    try:
        for site in SITES:
            th = FakeBinaryTherm(D=1e-18)
            p = PrecipitateParameters("beta"); p.gamma = 0.05; p.volume.setVolume(1e-5, "VM", 4)
            p.nucleation.setNucleationType(site); p.nucleation.gbEnergy = 0.03
            m = MatrixParameters(["B"]); m.volume.setVolume(1e-5, "VM", 4); m.initComposition = 0.02
            for bname, bf in (("betaBinary1", nr.betaBinary1), ("betaBinary2", nr.betaBinary2), ("default", None)):
                tag = "%s %s" % (site, bname)
                try:
                    arr = nr.computeSteadyStateNucleation(th, xs, 1000.0, p, m, betaFunc=bf)
                    pts = [nr.computeSteadyStateNucleation(th, float(x), 1000.0, p, m, betaFunc=bf) for x in xs]
                    one = nr.computeSteadyStateNucleation(th, np.array([xs[3]]), 1000.0, p, m, betaFunc=bf)
                except Exception as ex:  # noqa
                    ev.append({"e": "rel", "group": "C14:steady-state-nucleation-evaluates(scalar and array arguments)", "name": "%s: %s" % (tag, type(ex).__name__), "c": "gt", "want": "eq"})
                    continue
                ev.append({"e": "rel", "group": "C14:steady-state-nucleation-evaluates(scalar and array arguments)", "name": tag, "c": "eq", "want": "eq"})
                for f in ("beta", "tau", "nucleation_rate", "Gcrit", "Z"):
                    a = np.atleast_1d(np.asarray(getattr(arr, f), dtype=float))
                    okf = bool(np.all(np.isfinite(a[1:])) and np.all(a >= 0))
                    ev.append({"e": "rel", "group": "C14:finite-and-nonnegative(steady state, %s)" % f, "name": tag, "c": "eq" if okf else "lt", "want": "eq"})
                    pv = np.array([float(np.atleast_1d(getattr(q, f))[0]) for q in pts])
                    same = bool(a.shape == pv.shape and np.allclose(a, pv, rtol=1e-9, atol=0, equal_nan=True))
                    ev.append({"e": "rel", "group": "C14:array=point-by-point(steady state, %s)" % f, "name": tag, "c": "eq" if same else "gt", "want": "eq"})
                ev.append(rel("C14:array=point-by-point(steady state, one-element array)", tag, float(np.atleast_1d(one.nucleation_rate)[0]), float(np.atleast_1d(pts[3].nucleation_rate)[0]), "eq"))
                r = np.atleast_1d(np.asarray(arr.nucleation_rate, dtype=float))
                ev.append({"e": "rel", "group": "C14:rate=0-when-dG<=0(steady state)", "name": tag, "c": "eq" if r[0] == 0 else "gt", "want": "eq"})
                for i in range(1, len(r) - 1):
                    ev.append(rel("C14:steady-state-rate-non-decreasing-in-dG", "%s x=%g" % (tag, xs[i + 1]), r[i + 1], r[i], "ge"))
        # the same function on the real Al-Zr database: compositions below the solvus (no positive driving force anywhere) give a zero rate
        from . import thermo_drv as TD
        import warnings
        with warnings.catch_warnings():
            warnings.simplefilter("ignore")
            th = TD.therm("alzr", fresh=True)
            p = PrecipitateParameters("AL3ZR"); p.gamma = 0.1; p.volume.setVolume(1e-5, "VM", 4)
            m = MatrixParameters(["ZR"]); m.volume.setVolume(1e-5, "VM", 4); m.initComposition = 4e-3
            for bname, bf in (("betaBinary1", nr.betaBinary1), ("betaBinary2", nr.betaBinary2)):
                for xname, xv in (("scalar below the solvus", 1e-6), ("array below the solvus", np.array([1e-6, 2e-6])), ("array across the solvus", np.array([1e-6, 4e-3]))):
                    tag = "Al-Zr %s %s" % (bname, xname)
                    try:
                        d = nr.computeSteadyStateNucleation(th, xv, 723.15, p, m, betaFunc=bf)
                        r = np.atleast_1d(np.asarray(d.nucleation_rate, dtype=float)); g = np.atleast_1d(np.asarray(d.volumetric_driving_force, dtype=float))
                        okr = bool(np.all(np.isfinite(r)) and np.all(r >= 0) and np.all(r[g <= 0] == 0) and (np.all(g <= 0) or np.any(r > 0)))
                        ev.append({"e": "rel", "group": "C14:rate=0-when-dG<=0(steady state, real database)", "name": tag, "c": "eq" if okr else "gt", "want": "eq"})
                    except Exception as ex:  # noqa
                        ev.append({"e": "rel", "group": "C14:steady-state-nucleation-evaluates(scalar and array arguments)", "name": "%s: %s" % (tag, type(ex).__name__), "c": "gt", "want": "eq"})
    except Exception as ex:  # noqa
        ev.append({"e": "exception", "msg": "%s: %s" % (type(ex).__name__, str(ex)[:200])})
    return ev


def incubation_relations(rng, tier):
    """incubationTimeNonIsothermal on synthetic heating / cooling histories: the incubation time is finite and non-negative; while the
    accumulated impingement is still below 1/(theta Z^2) it lies beyond the elapsed time, afterwards within it; the incubation factor
    exp(-tau/t) lies in [0, 1].  Events for Relations.tla."""
    from kawin.precipitation import NucleationRate as nr
    from kawin.precipitation.PrecipitationParameters import MatrixParameters
    ev = [{"e": "init"}]
    try:
        m = MatrixParameters(["B"])
        theta = float(m.theta)
        for k in range(40 if tier == "quick" else 400):
            n = rng.randint(1, 12)
            times = np.cumsum([rng.uniform(0.0, 5.0)] + [rng.uniform(0.1, 2.0) for _ in range(n)])
            T0, rate = rng.uniform(600, 900), rng.uniform(-2.0, 2.0)
            temps = T0 + rate * (times - times[0])
            Z = rng.uniform(0.01, 0.1)
            need = 1.0 / (theta * Z ** 2)                     # what the accumulated impingement has to reach
            elapsed_hist = float(times[-1] - times[0])
            currTime = float(times[-1] + rng.uniform(0.1, 2.0))
            currTemp = float(T0 + rate * (currTime - times[0]))
            unfinished = rng.random() < 0.6
            beta0 = need / (currTime - times[0]) * (rng.uniform(0.02, 0.4) if unfinished else rng.uniform(3.0, 30.0))
            betas = beta0 * np.array([rng.uniform(0.8, 1.2) for _ in times])
            currBeta = float(beta0 * rng.uniform(0.8, 1.2))
            tau = nr.incubationTimeNonIsothermal(Z, currBeta, currTime, currTemp, betas, times, temps, m)
            tag = "history %d (%d rows, %s)" % (k, len(times), "incubation not finished" if unfinished else "finished")
            tau = float(np.squeeze(tau))
            ev.append({"e": "rel", "group": "C14:incubation-time-finite-and-non-negative(non-isothermal)", "name": tag, "c": "eq" if (math.isfinite(tau) and tau >= 0) else "lt", "want": "eq"})
            if unfinished:
                ev.append(rel("C14:incubation-time-beyond-elapsed-time-while-unfinished(non-isothermal)", tag, tau, elapsed_hist, "ge", rtol=1e-12))
            else:
                ev.append(rel("C14:incubation-time-within-elapsed-time-once-finished(non-isothermal)", tag, tau, currTime - float(times[0]), "le", rtol=1e-12))
            with np.errstate(all="ignore"):
                fac = float(np.squeeze(nr.nucleationRate(np.array([Z]), np.array([currBeta]), np.array([1e-19]), currTemp, np.array([tau]), time=currTime)) /
                            np.squeeze(nr.nucleationRate(np.array([Z]), np.array([currBeta]), np.array([1e-19]), currTemp, np.array([0.0]), time=currTime)))
            ev.append({"e": "rel", "group": "C14:incubation-factor-in-[0,1]", "name": tag, "c": "eq" if (0.0 <= fac <= 1.0 + 1e-12) else "gt", "want": "eq"})
            if unfinished:
                ev.append(rel("C14:incubation-factor-below-exp(-1)-while-unfinished", tag, fac, math.exp(-elapsed_hist / currTime), "le", rtol=1e-9))
    except Exception as ex:  # noqa
        ev.append({"e": "exception", "msg": "%s: %s" % (type(ex).__name__, str(ex)[:200])})
    return ev
