"""Shared body of the checks that judge PrecipitateModel traces (C01, C02, C03, C12, C13, C14)."""
from .tlc import run_tlc, MachineryError
from . import traces as T


def judge(ctx, prefixes, note=""):
    from . import kwn_suite as S
    m = S.run_suite(ctx.tier, ctx.seed)
    ctx.add_tlc(m["tlcres"], "KWN_Trace over %d precipitation runs" % len(m["runs"]))
    # binding self-test: a corrupted copy of an accepted trace must be flagged
    for r in m["runs"]:
        tag = r["cfg"]["tag"]
        steps = r["info"]["steps"]
        ctx.replayed += steps
        ctx.case(tag, nontrivial=steps > 5, sample={"config": r["cfg"], "steps": steps, "first_events": r["sample"][:2]} if len(ctx.samples) < 2 else None)
        if not r["accepted"]:
            ctx.violation("kwn:%s:trace-not-consumed" % tag.split("-r")[0], "trace of run %s not accepted (stopped at event %d of %d)" % (tag, r["l"], r["n_events"]),
                          {"config": r["cfg"], "info": r["info"]})
            continue
        for clause, n in r["fails"]:
            if any(clause.startswith(p) for p in prefixes):
                ctx.violation("kwn:%s:%s" % (clause, tag.split("-r")[0]), "run %s: clause %s fails first at step %d %s" % (tag, clause, n, r["info"].get("error") or ""),
                              {"config": r["cfg"], "clause": clause, "step": n, "info": r["info"]})
    ctx.extra["runs"] = len(m["runs"])
    ctx.extra["tolerances"] = {"RTOL": 1e-9, "RTOL_MB": 1e-8, "TRUNC": 1.0}
    return m


def canary(ctx, mutate, expect_clause):
    """binding self-test: corrupt one field of an accepted trace; the acceptor must report expect_clause"""
    from . import kwn_suite as S, kwn_drv as K
    cfg = S.base_configs()[0]
    cfg = dict(cfg, calls=[(50.0, 0.02)], cap=60)
    res = K.run(cfg)
    ev = K.project(cfg, res)
    mutate(ev)
    reached, r = T.validate("KWN_Trace", ["CONSTANTS", '  RefreshMode = "%s"' % S.REFRESH_MODE], [ev], "kwn_canary")
    if r.violated or reached is None or not any(c[0] == expect_clause for c in reached[0]["fails"]):
        raise MachineryError("binding self-test failed: corrupted trace did not raise %s (%s)" % (expect_clause, reached))


def _pair(args):
    from . import kwn_pairs as P
    a, b, perm, rtol, allowed = args
    return P.run_pair(a, b, perm=perm, rtol=rtol, allowed=allowed)


def judge_pairs(ctx, pairs, keyprefix):
    """pairs: list of (cfgA, cfgB, perm or None, rtol, allowed names, label)"""
    import concurrent.futures as cf
    from . import traces as T
    with cf.ProcessPoolExecutor(max_workers=min(14, len(pairs))) as ex:
        results = list(ex.map(_pair, [(a, b, perm, rtol, allowed) for (a, b, perm, rtol, allowed, label) in pairs]))
    traces = [r[0] for r in results]
    import copy
    can = copy.deepcopy(traces[0])
    for e in can:
        if e["e"] == "cmp":
            e["c"] = "gt"
            break
    reached, res = T.validate("Equiv", [], traces + [can], keyprefix + "_equiv")
    ctx.add_tlc(res, "Equiv over %d run pairs" % len(traces))
    if res.violated or reached is None:
        raise MachineryError("Equiv validation failed: %s" % res.violated)
    if not reached[-1]["fails"]:
        raise MachineryError("binding self-test failed: corrupted pair accepted by Equiv")
    for (a, b, perm, rtol, allowed, label), (ev, info), v in zip(pairs, results, reached):
        ctx.replayed += info["steps"]
        ctx.case(label, nontrivial=info["steps"] > 10, sample={"pair": label, "A": a, "B": b} if len(ctx.samples) < 3 else None)
        if v["l"] != len(ev) + 1 or v["fails"]:
            names = sorted(f[0] for f in v["fails"])
            ctx.violation("%s:%s:%s" % (keyprefix, label.split("/")[0], ",".join(names)[:80]), "pair '%s' differs in %s" % (label, v["fails"]),
                          {"A": a, "B": b, "fails": v["fails"]})
