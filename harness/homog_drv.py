"""Driver for the homogenization averaging rules and computeHomogenizationFunction with a scripted equilibrium (C17)."""
import itertools
from fractions import Fraction as Fr
import numpy as np
import importlib
HP = importlib.import_module("kawin.diffusion.HomogenizationParameters")
from kawin.diffusion.HomogenizationParameters import HomogenizationParameters, computeHomogenizationFunction
from kawin.diffusion.DiffusionParameters import HashTable

RULES = {"wu": ("wiener upper", HP.wienerUpper), "wl": ("wiener lower", HP.wienerLower), "hu": ("hashin upper", HP.hashinShtrikmanUpper),
         "hl": ("hashin lower", HP.hashinShtrikmanLower), "lab": ("lab", HP.labyrinth)}
ALLPHASES = ["P1", "P2", "P3", "P4"]
MOBS = [Fr(1, 64), Fr(1, 32), Fr(1, 16), Fr(1, 8)]
FRACS = [Fr(0), Fr(1, 4), Fr(1, 2), Fr(3, 4), Fr(1)]


def rat(f):
    f = Fr(f)
    return [f.numerator, f.denominator]


class _PR:
    def __init__(self, name, els):
        self.phase_name = name
        self.nonvacant_elements = sorted(els)


class _CS:
    def __init__(self, name, els, NP, X, mob):
        self.phase_record = _PR(name, els)
        self.NP = NP
        self.X = X
        self.dof = np.array([0.0])
        self._mob = mob


class _Eq:
    def __init__(self, MU):
        self.MU = MU


class _Wks:
    def __init__(self, cs, MU):
        self._cs = cs
        self.eq = _Eq(np.array(MU, dtype=float))

    def get_composition_sets(self):
        return list(self._cs)


class FakeEqTherm:
    """scripted equilibrium: points[x key] = list of (phase name, NP, [mobility per element or None])"""
    def __init__(self, points, nel=1, fn=None):
        self.fn = fn
        self.elements = (["X", "Y"] if nel == 1 else ["X", "Y", "Z"]) + ["VA"]
        self.numElements = nel + 1
        self.phases = list(ALLPHASES)
        self.points = points
        self.mobility_correction = None
        self.ncalls = 0
        self.current = None
        # mobility callables: defined per phase unless every point lists None for that phase
        self.mobCallables = {}
        for ph in ALLPHASES:
            undefined = any(m is None for pts in (points or {}).values() for (n, f, m) in pts if n == ph)
            if undefined:
                self.mobCallables[ph] = None
            else:
                self.mobCallables[ph] = {el: (lambda dof, ph=ph, i=i: self._lookup(ph, i)) for i, el in enumerate(self.elements[:-1])}

    def _lookup(self, ph, i):
        for (n, f, m) in self.current:
            if n == ph:
                return float(m[i])
        raise KeyError(ph)

    def getEq(self, x, T, gExtra=0, phases=None):
        self.ncalls += 1
        nel = self.numElements
        if self.fn is not None:
            self.current, MU = self.fn(np.atleast_1d(x), float(T))
        else:
            key = round(float(np.atleast_1d(x)[0]), 6)
            self.current = self.points[key]
            MU = [0.0] * nel
        cs = []
        for (n, f, m) in self.current:
            X = np.ones(nel) / nel          # u-fraction of every element = 1/nel in every phase
            cs.append(_CS(n, self.elements[:-1], float(f), X, m))
        return _Wks(cs, [MU])

    def clearCache(self):
        pass


def direct_case(rule, labn, mob, frac):
    """call the averaging function directly; mob: list (phase) of list (element) of Fraction or None"""
    arr = np.array([[(-1.0 if v is None else float(v)) for v in row] for row in mob])
    fr = np.array([float(f) for f in frac])
    keep = (arr.copy(), fr.copy())
    out = RULES[rule][1](arr, fr, labyrinth_factor=labn)
    intact = bool(np.array_equal(arr, keep[0]) and np.array_equal(fr, keep[1]))
    return [float(v) for v in np.atleast_1d(out)], intact


def to_case(names, mob, frac, rule, labn, post):
    return {"names": list(names), "mob": [[[-1, 1] if v is None else rat(v) for v in row] for row in mob], "frac": [rat(f) for f in frac],
            "rule": rule, "labn": labn, "post": post}


def gen_direct(rng, tier):
    """all (mobility table, fraction vector) combinations for 1-3 phases on the lattice (sampled in quick), incl. undefined entries"""
    cases = []
    for NPh in (1, 2, 3) + ((4,) if tier == "thorough" else ()):
        fracs = [f for f in itertools.product(FRACS, repeat=NPh) if sum(f) == 1]
        mobs = list(itertools.product(MOBS + [None], repeat=NPh))
        mobs = [m for m in mobs if any(v is not None for v in m)]
        # degenerate tables (all the material sits in phases of undefined mobility) are left out
        combos = [(f, m) for f in fracs for m in mobs if sum(fi for fi, mi in zip(f, m) if mi is not None) > 0]
        if tier == "quick" and len(combos) > 400:
            combos = rng.sample(combos, 400)
        elif len(combos) > 4000:
            combos = rng.sample(combos, 4000)
        for (f, m) in combos:
            for rule in RULES:
                cases.append((ALLPHASES[:NPh], [[v] for v in m], list(f), rule, rng.choice([1, 2])))
    # several elements whose ranking of the phases differs (phase 1 fastest for one element, phase 2 for another): every rule acts
    # element by element, so each column must come out as if it were alone
    for NPh in (2, 3):
        fracs = [f for f in itertools.product(FRACS[1:], repeat=NPh) if sum(f) == 1]
        for E in (2, 3):
            for _ in range(25 if tier == "quick" else 250):
                tab = [[rng.choice(MOBS) for _ in range(E)] for _ in range(NPh)]
                tab[0][0], tab[1][0] = MOBS[-1], MOBS[0]          # element 1: phase 1 fastest, phase 2 slowest
                tab[0][1], tab[1][1] = MOBS[0], MOBS[-1]          # element 2: the other way round
                if rng.random() < 0.2:
                    tab[rng.randrange(NPh)][rng.randrange(E)] = None
                    if all(r[e] is None for e in range(E) for r in tab[:1]) or any(all(r[e] is None for r in tab) for e in range(E)):
                        continue
                f = rng.choice(fracs)
                if any(sum(fi for fi, r in zip(f, tab) if r[e] is not None) == 0 for e in range(E)):
                    continue
                for rule in RULES:
                    cases.append((ALLPHASES[:NPh], tab, list(f), rule, rng.choice([1, 2])))
    return cases


def gen_points(rng, tier):
    """scenarios for computeHomogenizationFunction: stable-phase lists in arbitrary order/subsets, post-process modes, repeated evaluation"""
    scen = []
    n = 60 if tier == "quick" else 600
    for i in range(n):
        k = rng.choice([1, 2, 2, 3])
        names = rng.sample(ALLPHASES, k)                      # order as "returned by the equilibrium", not the database order
        fr = rng.choice([f for f in itertools.product(FRACS[1:], repeat=k) if sum(f) == 1] or [tuple([Fr(1)] + [Fr(0)] * (k - 1))])
        undefined_phase = rng.choice(names + [None, None])
        mob = [[None] if nme == undefined_phase and k > 1 else [rng.choice(MOBS)] for nme in names]
        mode = rng.choice(["none", "predefined", "majority", "exclude"])
        if mode == "predefined":
            cand = [nme for nme, m in zip(names, mob) if m[0] is not None]
            arg = rng.choice(cand)
        elif mode == "exclude":
            others = [p for p in ALLPHASES if p not in names]
            pool = ([nme for nme in names if k > 1][:1]) + others[:1]
            arg = [rng.choice(pool)] if pool else []
            # never exclude every stable phase
            if all(nme in arg for nme in names):
                arg = []
        else:
            arg = ""
        scen.append(dict(names=names, frac=list(fr), mob=mob, rule=rng.choice(list(RULES)), labn=rng.choice([1, 2]),
                         post={"mode": mode, "arg": arg}, cache=rng.random() < 0.7,
                         second=rng.choice(["same", "none", "majority"])))
    # the option names the ONLY stable phase (single-phase region of the excluded phase): the rules that are plain sums give zero
    for rule in [r for r in RULES if RULES[r][0] in ("wiener upper", "lab", "labyrinth")] or list(RULES)[:1]:
        for labn in (1, 2):
            for nme in ALLPHASES[:2]:
                scen.append(dict(names=[nme], frac=[Fr(1)], mob=[[MOBS[1]]], rule=rule, labn=labn, post={"mode": "exclude", "arg": [nme]},
                                 cache=(labn == 1), second="same"))
    # a phase that is stable as TWO composition sets at the point (miscibility gap): the equilibrium lists its name twice,
    # and an option that names the phase means both sets
    for i in range(12 if tier == "quick" else 120):
        dup, other = rng.sample(ALLPHASES, 2)
        names = rng.choice([[dup, dup, other], [dup, other, dup], [other, dup, dup]])
        fr = rng.choice([(Fr(1, 4), Fr(1, 4), Fr(1, 2)), (Fr(1, 2), Fr(1, 4), Fr(1, 4)), (Fr(1, 4), Fr(1, 2), Fr(1, 4))])
        per = {dup: rng.choice(MOBS), other: rng.choice(MOBS)}       # the scripted mobility is a function of the phase (by name)
        mob = [[per[nme]] for nme in names]
        mode = rng.choice(["exclude", "exclude", "none", "majority"])
        arg = [dup] if mode == "exclude" else ""
        scen.append(dict(names=names, frac=list(fr), mob=mob, rule=rng.choice(list(RULES)), labn=rng.choice([1, 2]),
                         post={"mode": mode, "arg": arg}, cache=rng.random() < 0.7, second=rng.choice(["same", "none"])))
    return scen


def run_point(sc):
    """evaluate the point through computeHomogenizationFunction: first with the scenario's option, then again (same option),
    then after switching the option, each compared by the caller with the specification's fresh evaluation"""
    u = Fr(1, 2)      # u-fraction factor applied by _computeSingleMobility with X = (1/2, 1/2)
    pts = {0.25: [(n, f, (None if m[0] is None else [m[0], m[0]])) for n, f, m in zip(sc["names"], sc["frac"], sc["mob"])]}
    th = FakeEqTherm(pts, nel=1)
    ht = HashTable()
    ht.enableCaching(sc["cache"])
    out = []

    def ev(mode, arg):
        hp = HomogenizationParameters(RULES[sc["rule"]][0], labyrinthFactor=sc["labn"], postProcessFunction=mode,
                                      postProcessArgs=(arg if mode in ("predefined", "exclude") else None))
        try:
            avg, mu = computeHomogenizationFunction(th, 0.25, 1000, hp, ht)
            return {"avg": [float(v) for v in np.atleast_1d(avg)]}
        except Exception as ex:  # noqa
            return {"exc": "%s: %s" % (type(ex).__name__, str(ex)[:100])}
    m1 = sc["post"]["mode"], sc["post"]["arg"]
    out.append((m1, ev(*m1)))
    out.append((m1, ev(*m1)))
    m2 = m1 if sc["second"] == "same" else (sc["second"], "")
    out.append((m2, ev(*m2)))
    # effective phase mobilities as they enter the rules: M * u-fraction (binary: both elements, u = 1/2) -- the averaged
    # array has one entry per element of therm.elements[:-1]; both are equal here
    eff = [[None if m[0] is None else m[0] * u] for m in sc["mob"]]
    return out, eff


# ------------------------------------------------------------------ HomogenizationModel runs (C04, conservation traces)
def homog_model_run(cfg):
    """HomogenizationModel on a scripted two-phase equilibrium: phase fractions and chemical potentials are smooth functions of the
    composition, mobilities are constants per phase.  Returns Relations events for the C04 clauses."""
    from kawin.diffusion import HomogenizationModel
    from kawin.diffusion.DiffusionParameters import BoundaryConditions
    from kawin.solver.Solver import SolverType
    from .kwn_drv import cmp3
    Kmu = cfg.get("Kmu", 2.0e4)

    def fn(x, T):
        xv = float(x[0])
        f2 = min(max((xv - 0.2) / 0.6, 0.0), 1.0)                 # fraction of P2 rises from 0 (x <= 0.2) to 1 (x >= 0.8)
        phases = [("P1", 1 - f2, [4e-22, 2e-22])] + ([("P2", f2, [1e-22, 8e-22])] if f2 > 0 else [])
        if f2 >= 1:
            phases = [("P2", 1.0, [1e-22, 8e-22])]
        return phases, [-Kmu * xv, Kmu * xv]
    th = FakeEqTherm(None, nel=1, fn=fn)
    N = cfg.get("N", 12)
    m = HomogenizationModel([0, 1e-4], N, ["X", "Y"], ["P1", "P2"], thermodynamics=th)
    m.setTemperature(1000)
    m.setMobilityFunction(cfg.get("rule", "wiener upper"))
    m.setIdealEps(cfg.get("eps", 0.05))
    kind = cfg.get("profile", "step")
    if kind == "step": m.setCompositionStep(0.3, 0.7, 0.5e-4, "Y")
    elif kind == "linear": m.setCompositionLinear(0.25, 0.75, "Y")
    elif kind == "uniform": m.setCompositionLinear(0.5, 0.5, "Y")         # nothing to homogenise: with closed ends the profile simply stays
    else: m.setCompositionInBounds(0.6, 0.3e-4, 0.6e-4, "Y"); m.compositionProfile.compositionSteps["Y"].insert(0, (m.compositionProfile.LINEAR, (), dict(leftValue=0.3, rightValue=0.3)))
    bc = cfg.get("bc", ("flux", 0.0, "flux", 0.0))
    Tm = {"flux": BoundaryConditions.FLUX_BC, "comp": BoundaryConditions.COMPOSITION_BC}
    m.setBC(Tm[bc[0]], bc[1], Tm[bc[2]], bc[3], "Y")
    m.useCache(cfg.get("cache", True))
    rows = []

    class Obs:
        def updateCoupledModel(self, model):
            fl, dt = model.getFluxes()
            rows.append((float(model.t), np.array(model.x[0]).copy(), float(fl[0, 0]), float(fl[0, -1])))
    ev = [{"e": "init"}]
    try:
        m.setup()
        fl0, _ = m.getFluxes()
        rows.append((float(m.t), np.array(m.x[0]).copy(), float(fl0[0, 0]), float(fl0[0, -1])))
        m.addCouplingModel(Obs())
        it = SolverType.RK4 if cfg.get("iter", "euler") == "rk4" else SolverType.EXPLICITEULER
        late = cfg.get("late_bc")          # a boundary condition given only after the first solve call: (left type, value, right type, value)
        for ci, span in enumerate(cfg["calls"]):
            if late and ci == 1:
                m.setBC(Tm[late[0]], late[1], Tm[late[2]], late[3], "Y")
                late_from = len(rows)
            m.solve(span, solverType=it, maxDtFrac=cfg.get("maxfrac", 0.1))
        minc = m.constraints.minComposition
        if late:
            # from the first row recorded after the change the node holds the prescribed composition (up to the minimum-composition adjustment)
            for k in range(late_from, len(rows)):
                for side, idx in (("left", 0), ("right", -1)):
                    tkind, tval = (late[0], late[1]) if side == "left" else (late[2], late[3])
                    if tkind == "comp":
                        ev.append({"e": "rel", "group": "C04:dirichlet-given-between-solve-calls-holds-its-value", "name": "%s row %d" % (side, k),
                                   "c": cmp3(float(rows[k][1][idx]), float(tval), rtol=0.0, atol=3 * minc), "want": "eq"})
            bc = ("changed", 0, "changed", 0)         # the per-boundary relations below are stated for one boundary condition over the whole run
        closed = bc[0] == "flux" and bc[2] == "flux" and bc[1] == 0 and bc[3] == 0
        s0 = float(np.sum(rows[0][1]))
        for k in range(1, len(rows)):
            t0, x0, jl, jr = rows[k - 1]
            t1, x1, _, _ = rows[k]
            clipped = bool(np.any(x1 <= minc) or np.any(x1 >= 1 - minc))
            ev.append({"e": "rel", "group": "C04:time-increasing", "name": "row %d" % k, "c": cmp3(t1, t0, rtol=0.0), "want": "gt"})
            ev.append({"e": "rel", "group": "C04:bounds", "name": "row %d" % k, "c": "eq" if (np.all(x1 >= minc) and np.all(x1 <= 1 - minc)) else "gt", "want": "eq"})
            if cfg.get("iter", "euler") == "euler" and not clipped and not (late and k == late_from):      # (the user's change of a node is not a flux)
                lhs = float(np.sum(x1) - np.sum(x0))
                rhs = (jl - jr) * (t1 - t0) / m.dz
                ev.append({"e": "rel", "group": "C04:balance", "name": "row %d" % k, "c": cmp3(lhs, rhs, rtol=1e-6, atol=1e-13 * N), "want": "eq"})
            if closed and not clipped:
                ev.append({"e": "rel", "group": "C04:closed-constant", "name": "row %d" % k, "c": cmp3(float(np.sum(x1)), s0, rtol=1e-12), "want": "eq"})
            # a prescribed boundary flux is the flux the model applies at that boundary
            if bc[0] == "flux":
                ev.append({"e": "rel", "group": "C04:flux-bc-honoured", "name": "left row %d" % k, "c": cmp3(jl, float(bc[1]), rtol=1e-12, atol=1e-300), "want": "eq"})
            if bc[2] == "flux":
                ev.append({"e": "rel", "group": "C04:flux-bc-honoured", "name": "right row %d" % k, "c": cmp3(jr, float(bc[3]), rtol=1e-12, atol=1e-300), "want": "eq"})
            if bc[0] == "comp":
                ev.append({"e": "rel", "group": "C04:dirichlet-fixed", "name": "left row %d" % k, "c": cmp3(float(x1[0]), float(rows[0][1][0]), rtol=1e-13), "want": "eq"})
            if bc[2] == "comp":
                ev.append({"e": "rel", "group": "C04:dirichlet-fixed", "name": "right row %d" % k, "c": cmp3(float(x1[-1]), float(rows[0][1][-1]), rtol=1e-13), "want": "eq"})
    except Exception as ex:  # noqa
        ev.append({"e": "exception", "msg": "%s: %s" % (type(ex).__name__, str(ex)[:200])})
    moved = float(np.max(np.abs(rows[-1][1] - rows[0][1]))) if len(rows) > 1 else 0.0
    return ev, {"steps": len(rows) - 1, "moved": moved}


def homog_model_configs():
    out = []
    for rule in ("wiener upper", "hashin lower", "lab"):
        for it in ("euler", "rk4"):
            out.append(dict(tag="homog-closed-%s-%s" % (rule.replace(" ", ""), it), rule=rule, iter=it, calls=[3.0e5, 2.0e5]))
    out.append(dict(tag="homog-flux-bc", bc=("flux", 2e-13, "flux", -1e-13), calls=[3.0e5, 3.0e5], profile="linear"))
    out.append(dict(tag="homog-dirichlet-left", bc=("comp", 0.35, "flux", 0.0), calls=[3.0e5, 3.0e5]))
    out.append(dict(tag="homog-dirichlet-both-rk4", bc=("comp", 0.35, "comp", 0.65), calls=[4.0e5], iter="rk4", profile="linear"))
    out.append(dict(tag="homog-uniform-closed", profile="uniform", calls=[2.0e5, 2.0e5], still=True))
    out.append(dict(tag="homog-uniform-flux-bc-rk4", profile="uniform", bc=("flux", 2e-13, "flux", 0.0), calls=[3.0e5], iter="rk4"))
    out.append(dict(tag="homog-dirichlet-given-after-first-call", calls=[2.0e5, 2.0e5, 1.0e5], late_bc=("comp", 0.4, "flux", 0.0)))
    out.append(dict(tag="homog-bounded-nocache", profile="bounded", cache=False, calls=[2.0e5, 2.0e5], eps=0.0))
    return out
