"""Scripted thermodynamics objects (duck-typed; kawin's models accept any object via setThermodynamics).

FakeBinaryTherm -- self-consistent linear closure for a binary alloy:
    dG(x, T)      = K * (x - xe(T))                 chemical driving force, J/mol
    x_alpha(g, T) = xe(T) + g / K                   matrix-side interfacial composition for Gibbs-Thomson energy g
    x_beta(g)     = xb + cb * g                     precipitate-side interfacial composition (varies with particle size)
    unstable (sentinel -1) when x_alpha(g, T) >= xlim
    xe(T)         = xe0 + se * (T - T0)
so the composition at which the driving force equals g is exactly x_alpha(g): the critical radius of nucleation is the radius
at which growth changes sign.  Every call is logged (method, temperature) and failures can be injected on a schedule.
"""
import numpy as np


class FaultPlan:
    """drop the k-th call (0-based) of a method: {"drivingForce": {3, 4}, "growth": {...}, "interfacial": {...}}"""
    def __init__(self, plan=None):
        self.plan = {k: set(v) for k, v in (plan or {}).items()}
        self.count = {}
        self.fired = []

    def hit(self, kind):
        i = self.count.get(kind, 0)
        self.count[kind] = i + 1
        if i in self.plan.get(kind, ()):
            self.fired.append((kind, i))
            return True
        return False


class FakeBinaryTherm:
    numElements = 2

    def __init__(self, K=1e5, xe0=0.005, se=0.0, T0=1000.0, xb=0.25, cb=1e-6, xlim=0.3, D=1e-19, phases=("beta",), per_phase=None,
                 faults=None):
        self.K, self.xe0, self.se, self.T0, self.xb, self.xlim, self.D, self.cb = K, xe0, se, T0, xb, xlim, D, cb
        self.per_phase = per_phase or {}
        self.phases = list(phases)          # no precipitate named in a query = the first one (as the real backends do)
        self.faults = faults or FaultPlan()
        self.log = []            # (method, T or None)
        self.lookupT = []        # temperatures at which full interfacial-composition arrays were requested

    def _pp(self, phase, name):
        return self.per_phase.get(phase, {}).get(name, getattr(self, name))

    def xe(self, T, phase=None):
        return self._pp(phase, "xe0") + self._pp(phase, "se") * (np.asarray(T, dtype=float) - self.T0)

    def clearCache(self):
        self.log.append(("clearCache", None))

    def getDrivingForce(self, x, T, precPhase=None, removeCache=False, training=False):
        precPhase = self.phases[0] if precPhase is None else precPhase
        self.log.append(("getDrivingForce", float(np.atleast_1d(T)[0])))
        from kawin.thermo.utils import _process_xT_arrays
        x, T = _process_xT_arrays(np.asarray(x, dtype=float), np.asarray(T, dtype=float), True)     # same input handling as the real backend
        x = x[:, 0]
        if self.faults.hit("drivingForce"):
            return None, None
        dg = self._pp(precPhase, "K") * (x - self.xe(T, precPhase))
        xb = self._pp(precPhase, "xb") * np.ones(dg.shape)
        return np.squeeze(dg), np.squeeze(xb)

    def getInterfacialComposition(self, T, gExtra=0, precPhase=None):
        precPhase = self.phases[0] if precPhase is None else precPhase
        g = np.asarray(gExtra, dtype=float)
        T = np.asarray(T, dtype=float)
        if g.ndim > 0 or T.ndim > 0:
            from kawin.thermo.utils import _process_TG_arrays
            T, g = _process_TG_arrays(T, g)                                                               # same input handling as the real backend
            if len(g) == 1 and np.ndim(gExtra) == 0:
                g, T = g[0], T[0]
        Ta_ = np.atleast_1d(T)
        self.log.append(("getInterfacialComposition", float(Ta_[0]) if Ta_.size else float("nan")))      # (empty arrays: no class with a critical radius)
        if g.ndim > 0 and g.size > 1:
            self.lookupT.append((precPhase, float(np.atleast_1d(T)[0]), int(g.size)))
        xa = self.xe(T, precPhase) + g / self._pp(precPhase, "K")
        xb = self._pp(precPhase, "xb") + self._pp(precPhase, "cb") * g * np.ones(np.shape(xa))   # precipitate composition varies with size
        if np.ndim(xa) == 0:
            if xa >= self._pp(precPhase, "xlim"):
                return -1, -1
            return float(xa), float(xb)
        xa = np.array(xa, dtype=float)
        bad = xa >= self._pp(precPhase, "xlim")
        xa[bad] = -1
        xb[bad] = -1
        return xa, xb

    def getInterdiffusivity(self, x, T, removeCache=True, phase=None):
        self.log.append(("getInterdiffusivity", float(np.atleast_1d(T)[0])))
        x = np.asarray(x, dtype=float)
        return self.D * np.ones(x.shape) if x.ndim > 0 else self.D

    def getTracerDiffusivity(self, x, T, removeCache=True, phase=None):
        Ta = np.atleast_1d(T)
        self.log.append(("getTracerDiffusivity", float(Ta[0]) if Ta.size else float("nan")))      # (empty arrays: zero critical radius)
        x = np.atleast_1d(np.asarray(x, dtype=float))
        return np.squeeze(self.D * np.ones((len(x), 2))) if len(x) else np.zeros((0, 2))


class FakeMultiTherm:
    """Scripted ternary backend (two solutes) for the multicomponent path of PrecipitateModel.

    dG(x, T)   = K * w.(x - xe(T))                       chemical driving force
    growth     = kawin's own _growthRateOutputFromCurvature with a scripted CurvatureOutput
                 (mc, dc, gba, beta, c_eq_alpha = xe(T), c_eq_beta = xb); growth(R) = mc/R * (dG - g(R)),
                 so the radius at which growth changes sign is the radius whose Gibbs-Thomson energy equals dG.
    Failures: "growth" -> getGrowthAndInterfacialComposition returns None; "drivingForce" -> (None, None)."""
    numElements = 3

    def __init__(self, K=1e5, xe0=(0.004, 0.006), se=(0.0, 0.0), T0=1000.0, xb=(0.2, 0.1), w=(1.0, 0.5), mc=3e-21, dc=(1e-7, 5e-8),
                 beta=1e-18, per_phase=None, faults=None):
        self.K, self.xe0, self.se, self.T0, self.xb, self.w, self.mc, self.dc, self.beta = K, np.array(xe0), np.array(se), T0, np.array(xb), np.array(w), mc, np.array(dc), beta
        self.per_phase = per_phase or {}
        self.faults = faults or FaultPlan()
        self.log = []
        self.last_curv = {}
        self.last_beta = {}

    def _pp(self, phase, name):
        v = self.per_phase.get(phase, {}).get(name, getattr(self, name))
        return np.array(v) if isinstance(v, (tuple, list)) else v

    def xe(self, T, phase=None):
        return self._pp(phase, "xe0") + self._pp(phase, "se") * (float(T) - self.T0)

    def clearCache(self):
        self.log.append(("clearCache", None))

    def getDrivingForce(self, x, T, precPhase=None, removeCache=False, **kw):
        from kawin.thermo.utils import _process_xT_arrays
        x, T = _process_xT_arrays(np.asarray(x, dtype=float), np.asarray(T, dtype=float), False)
        self.log.append(("getDrivingForce", float(T[0])))
        if self.faults.hit("drivingForce"):
            return None, None
        dg = np.array([self._pp(precPhase, "K") * float(np.dot(self._pp(precPhase, "w"), xi - self.xe(Ti, precPhase))) for xi, Ti in zip(x, T)])
        xb = np.array([self._pp(precPhase, "xb") for _ in dg])
        return np.squeeze(dg), np.squeeze(xb)

    def curvatureFactor(self, x, T, precPhase=None, removeCache=False, searchDir=None, computeSearchDir=False):
        from kawin.thermo.MultiTherm import CurvatureOutput
        return CurvatureOutput(dc=self._pp(precPhase, "dc"), mc=self._pp(precPhase, "mc"), gba=0.5 * np.eye(2), beta=self._pp(precPhase, "beta"),
                               c_eq_alpha=self.xe(T, precPhase), c_eq_beta=self._pp(precPhase, "xb"))

    def getGrowthAndInterfacialComposition(self, x, T, dG, R, gExtra, precPhase=None, removeCache=False, searchDir=None):
        from kawin.thermo.MultiTherm import _growthRateOutputFromCurvature
        from kawin.thermo.utils import _process_x
        self.log.append(("getGrowthAndInterfacialComposition", float(T)))
        nR = int(np.size(R))
        regrid = getattr(self, "_lastR", {}).get(precPhase, nR) != nR and nR > 1
        if nR > 1:
            self._lastR = dict(getattr(self, "_lastR", {}), **{precPhase: nR})
        # "growth_regrid": fail the first growth evaluation that follows a change of the size-class grid (k-th occurrence)
        if regrid and self.faults.hit("growth_regrid"):
            return None
        if self.faults.hit("growth"):
            return None
        c = self.curvatureFactor(x, T, precPhase)
        return _growthRateOutputFromCurvature(_process_x(x, self.numElements), dG, R, gExtra, c)

    def impingementFactor(self, x, T, precPhase=None, removeCache=False, searchDir=None):
        self.log.append(("impingementFactor", float(T)))
        # the real backend answers a failed equilibrium with the impingement factor of the previous successful calculation, and with
        # None when there has been none yet (MulticomponentThermodynamics.impingementFactor / _curvature_outputs)
        if self.faults.hit("impingement"):
            return self.last_beta.get(precPhase)
        self.last_beta[precPhase] = self._pp(precPhase, "beta")
        return self.last_beta[precPhase]

    def getInterdiffusivity(self, x, T, removeCache=True, phase=None):
        return 1e-17 * np.eye(2)

    def getTracerDiffusivity(self, x, T, removeCache=True, phase=None):
        return 1e-17 * np.ones(3)


class LoggingTherm:
    """Pass-through wrapper around a real (pycalphad-backed) thermodynamics object: logs the temperature and size of every
    interfacial-composition table the model asks for (the same `lookupT` record the scripted backend keeps) and can drop
    results on a schedule (FaultPlan) at the documented failure values."""
    def __init__(self, real, faults=None):
        self._real = real
        self.faults = faults or FaultPlan()
        self.lookupT = []

    def __getattr__(self, name):
        return getattr(self._real, name)

    def getInterfacialComposition(self, T, gExtra=0, precPhase=None):
        g = np.asarray(gExtra, dtype=float)
        if g.ndim > 0 and g.size > 1:
            ph = precPhase if precPhase is not None else self._real.phases[1]
            self.lookupT.append((ph, float(np.atleast_1d(T)[0]), int(g.size)))
        return self._real.getInterfacialComposition(T, gExtra, precPhase)

    def getDrivingForce(self, x, T, precPhase=None, removeCache=False, **kw):
        if self.faults.hit("drivingForce"):
            return None, None
        return self._real.getDrivingForce(x, T, precPhase=precPhase, removeCache=removeCache, **kw)
