"""Driver for GrainLife.tla: histories of loads, drag settings, solves and resets on one GrainGrowthModel; after every call the
distribution the model holds is recognised by replaying candidate histories on freshly built models."""
import io, contextlib, itertools
import numpy as np
from kawin.precipitation.coupling.GrainGrowth import GrainGrowthModel
from kawin.solver.Solver import SolverType

SPANS = {1: 10.0, 2: 20.0}        # the specification counts time in units of 10 s
DRAGS = {0: 0.0, 1: 1.5e5}
RTOL = 1e-9


def mk():
    return GrainGrowthModel(2e-7, 8e-6, 60, 40, 100, solverType=SolverType.EXPLICITEULER)


def load(g, d):
    if d == "d1":
        g.LoadDistribution(np.random.RandomState(7).lognormal(mean=np.log(1.0e-6), sigma=0.3, size=4000))
    else:
        g.LoadDistributionFunction(lambda R: np.exp(-(R - 2.0e-6) ** 2 / (2 * (0.4e-6) ** 2)))


class Host:
    """what computeZenerRadius reads of a PrecipitateModel: one phase whose volume fraction and mean radius give the wanted drag"""
    def __init__(self, z):
        class PD: pass
        self.phases = np.array(["beta"])
        self.pData = PD()
        self.pData.n = 0
        r = 1e-8
        self.pData.Ravg = np.array([[r if z > 0 else 0.0]])
        self.pData.volFrac = np.array([[z * (4.0 / 3.0) * r]])          # z = f^m / (K r) with m = 1, K = 4/3


def set_drag(g, zid):
    g.computeZenerRadius(Host(DRAGS[zid]))


def solve(g, sid):
    with contextlib.redirect_stdout(io.StringIO()):
        g.solve(SPANS[sid], solverType=SolverType.EXPLICITEULER)


_REPLAY = {}


def replay(d, hist, via_reset=False):
    """the distribution after loading d and solving the spans of hist under their drags (via_reset: with a reset() between the load and the
    first span -- the same distribution, but the model picks its first step sizes without the dissolution index of the loaded distribution)"""
    key = (d, tuple(hist), via_reset)
    if key not in _REPLAY:
        g = mk()
        load(g, d)
        if via_reset:
            g.reset()
        for (s, z) in hist:
            set_drag(g, z)
            solve(g, s)
        _REPLAY[key] = (np.array(g.pbm.PSD), np.array(g.pbm.PSDbounds))
    return _REPLAY[key]


def same_dist(g, ref):
    psd, b = np.asarray(g.pbm.PSD, dtype=float), np.asarray(g.pbm.PSDbounds, dtype=float)
    return bool(psd.shape == ref[0].shape and b.shape == ref[1].shape and np.allclose(b, ref[1], rtol=1e-12, atol=0)
                and np.allclose(psd, ref[0], rtol=RTOL, atol=1e-9 * float(np.max(ref[0]))))


def run_history(ops):
    """ops: ("load", d) | ("drag", z) | ("solve", s) | ("reset",)"""
    ev = [{"e": "init"}]
    loaded, hist, full, prevloaded = "none", [], [], "none"
    try:
        g = mk()
        for op in ops:
            if op[0] == "solve" and loaded == "none":
                continue          # the default (empty) distribution cannot be solved: not part of the histories
            n0 = len(g.time)
            r0 = float(g.Rm(g.pbm.PSD)) if loaded != "none" else 0.0        # mean size of the distribution the call starts from
            if op[0] == "load":
                load(g, op[1]); prevloaded, loaded, hist, full = loaded, op[1], [], []
            elif op[0] == "drag":
                set_drag(g, op[1]); cur_drag = op[1]
            elif op[0] == "solve":
                z = 0 if not hasattr(g, "_z") or g._z == 0 else 1
                solve(g, op[1]); hist = hist + [[op[1], z]]; full = full + [[op[1], z]]
            else:
                g.reset(); hist = []
            obs = {"clock": int(round(float(g.time[-1]) / 10.0)) if abs(float(g.time[-1]) / 10.0 - round(float(g.time[-1]) / 10.0)) < 1e-6 else -1,
                   "aligned": bool(len(g.time) == len(g.avgR)), "rowsgrew": bool(len(g.time) > n0), "rowsone": bool(len(g.time) == 1),
                   "unitvolume": bool(loaded == "none" or abs(float(g.pbm.ThirdMoment()) - 1.0) < 1e-9),
                   "meanfell": bool(op[0] == "solve" and r0 > 0 and len(g.avgR) > n0 and float(np.min(g.avgR[n0:])) < r0 * (1 - 1e-12))}
            # which history does the distribution the model holds come from?
            stamp = ["unknown", []]
            if loaded == "none":
                stamp = ["none", []]
            else:
                cands = [(loaded, hist), (loaded, full), (loaded, [[s, 0] for s, _ in hist]), (loaded, [[s, 1] for s, _ in hist]), (loaded, [])]
                if prevloaded != "none":
                    cands += [(prevloaded, hist), (prevloaded, [])]
                for (d, h) in cands:
                    if same_dist(g, replay(d, [tuple(x) for x in h])) or (h and same_dist(g, replay(d, [tuple(x) for x in h], via_reset=True))):
                        stamp = [d, [list(x) for x in h]]
                        break
            obs["dist"] = stamp
            ev.append({"e": "op", "op": op[0], "arg": op[1] if len(op) > 1 else "", "obs": obs})
    except Exception as ex:  # noqa
        ev.append({"e": "exception", "msg": "%s: %s" % (type(ex).__name__, str(ex)[:200])})
    return ev


ALPHABET = [("load", "d1"), ("load", "d2"), ("drag", 0), ("drag", 1), ("solve", 1), ("solve", 2), ("reset",)]


def gen_histories(rng, tier):
    hist = []
    for n in (2, 3):
        for seq in itertools.product(ALPHABET, repeat=n):
            if tier == "quick" and n == 3 and rng.random() > 0.35:
                continue
            hist.append([("load", "d1")] + list(seq))
    for _ in range(40 if tier == "quick" else 400):
        hist.append([rng.choice(ALPHABET) for _ in range(rng.randint(4, 8))])
    return hist


# ------------------------------------------------------------------ C07: the step limit of the grain growth model, every iteration
def step_limit_relations(tier):
    """GrainGrowthModel runs that extend and coarsen their grid with a non-zero dissolution threshold: at EVERY iteration the step the model
    proposes equals maxBinRatio * class width / fastest growth rate among the occupied classes at or above the dissolution threshold of
    the CURRENT grid (or the remaining time when nothing moves), classes stay non-negative.  Events for Relations.tla."""
    from .kwn_drv import cmp3
    ev = [{"e": "init"}]
    info = {"regrids": 0, "iterations": 0}
    try:
        cases = [("euler 40/80", 40, 80, SolverType.EXPLICITEULER, 60.0), ("rk4 40/80", 40, 80, SolverType.RK4, 60.0), ("euler 20/80", 20, 80, SolverType.EXPLICITEULER, 60.0)]
        if tier != "quick":
            cases += [("euler 30/70 two calls", 30, 70, SolverType.EXPLICITEULER, 40.0), ("rk4 25/90", 25, 90, SolverType.RK4, 80.0)]
        for label, minb, maxb, st, span in cases:
            m = GrainGrowthModel(1e-7, 1e-5, bins=60, minBins=minb, maxBins=maxb, solverType=st)
            m.setGrainBoundaryMobility(1e-12)
            m.LoadDistributionFunction(lambda R: np.where(R > 6e-6, 1.0, 0.0))
            rows = []
            inner = m.getDt

            def getDt(dXdt, m=m, inner=inner, rows=rows):
                dt = inner(dXdt)
                pbm = m.pbm
                psd = pbm.PSD
                growth = m.constrainedGrowth(m.grainGrowth(psd), m._z)
                Dn = pbm.getDissolutionIndex(m.maxDissolution, 0)
                rel_ = np.zeros(pbm.bins, dtype=bool)
                rel_[Dn:] = psd[Dn:] > 0
                gmax = float(np.amax(np.abs(growth[:-1][rel_]))) if np.any(rel_) else 0.0
                width = float(pbm.PSDbounds[1] - pbm.PSDbounds[0])
                remaining = float(m.finalTime - m.time[-1])
                limit = remaining if gmax == 0 else pbm.maxRatio * width / gmax if hasattr(pbm, "maxRatio") else 0.4 * width / gmax
                rows.append((int(pbm.bins), int(Dn), float(dt), float(limit), bool(np.all(psd >= 0))))
                return dt
            m.getDt = getDt
            with contextlib.redirect_stdout(io.StringIO()):
                m.solve(span, solverType=st)
                if "two calls" in label:
                    m.solve(span, solverType=st)
            info["iterations"] += len(rows)
            info["regrids"] += sum(1 for i in range(1, len(rows)) if rows[i][0] < rows[i - 1][0] and rows[i][1] > 0)
            for k, (bins, Dn, dt, limit, nonneg) in enumerate(rows):
                after = k > 0 and rows[k - 1][0] != bins
                if after or k % 7 == 0 or dt > limit * (1 + 1e-9):
                    ev.append({"e": "rel", "group": "C07:grain-step-limit=ratio*width/fastest-relevant-growth%s" % ("(iteration after a change of the size classes)" if after else ""),
                               "name": "%s iteration %d (%d classes, threshold class %d)" % (label, k, bins, Dn), "c": cmp3(dt, limit, rtol=1e-9), "want": "le"})
                if not nonneg:
                    ev.append({"e": "rel", "group": "C07:grain-classes-non-negative", "name": "%s iteration %d" % (label, k), "c": "lt", "want": "eq"})
    except Exception as ex:  # noqa
        ev.append({"e": "exception", "msg": "%s: %s" % (type(ex).__name__, str(ex)[:200])})
    return ev, info


def zener_relations():
    """computeZenerRadius on stub hosts with one to three precipitate phases, in every order, with global and phase-specific (m, K): the drag
    is the documented SUM over the phases that carry precipitates of f^m / (K r).  Events for Relations.tla."""
    from .kwn_drv import cmp3
    ev = [{"e": "init"}]
    data = {"FINE": (0.1, 5e-9), "COARSE": (1e-3, 1e-7), "NONE": (0.0, 0.0), "MID": (0.02, 2e-8)}

    class Host2:
        def __init__(self, names):
            class PD: pass
            self.phases = np.array(names)
            self.pData = PD()
            self.pData.n = 1
            self.pData.Ravg = np.array([[0.0] * len(names), [data[n][1] for n in names]])
            self.pData.volFrac = np.array([[0.0] * len(names), [data[n][0] for n in names]])
    try:
        for names in (["FINE"], ["FINE", "COARSE"], ["COARSE", "FINE"], ["FINE", "NONE"], ["NONE", "FINE"], ["FINE", "MID", "COARSE"], ["COARSE", "MID", "FINE"], ["MID", "NONE", "COARSE"]):
            for special in (False, True):
                g = mk()
                mK = {"all": (1.0, 4.0 / 3.0)}
                if special:
                    g.setZenerParameters(0.9, 1.2, "FINE"); mK["FINE"] = (0.9, 1.2)
                g.computeZenerRadius(Host2(names))
                want = sum((data[n][0] ** mK.get(n, mK["all"])[0]) / (mK.get(n, mK["all"])[1] * data[n][1]) for n in names if data[n][1] > 0)
                ev.append({"e": "rel", "group": "C18:zener-drag=sum-over-phases", "name": "%s%s" % ("+".join(names), " (phase-specific parameters)" if special else ""),
                           "c": cmp3(float(g._z), float(want), rtol=1e-12), "want": "eq"})
    except Exception as ex:  # noqa
        ev.append({"e": "exception", "msg": "%s: %s" % (type(ex).__name__, str(ex)[:200])})
    return ev


def ratio_relations():
    """the stated fraction of getDTEuler: a call that names a fraction uses it, a call that names none uses the documented 0.4, whatever was
    asked of the same object before (also after reset, and through GrainGrowthModel.getDt).  Events for Relations.tla."""
    from .kwn_drv import cmp3
    from kawin.precipitation.PopulationBalance import PopulationBalanceModel
    ev = [{"e": "init"}]
    try:
        def fresh():
            p = PopulationBalanceModel(1e-10, 1e-8, 40, 20, 80)
            x = np.zeros(40); x[5:20] = 10.0
            p.UpdatePBMEuler(1.0, x)
            return p
        growth = np.linspace(-2e-10, 4e-10, 41)
        ref = float(fresh().getDTEuler(1e9, growth, 0))
        width = 1e-8 / 40 - 1e-10 / 40
        for first in (0.9, 0.1, 0.75):
            p = fresh()
            a = float(p.getDTEuler(1e9, growth, 0, first))
            ev.append({"e": "rel", "group": "C07:step-limit=named-fraction*width/fastest-growth", "name": "fraction %g" % first, "c": cmp3(a, ref * first / 0.4, rtol=1e-12), "want": "eq"})
            b = float(p.getDTEuler(1e9, growth, 0))
            ev.append({"e": "rel", "group": "C07:step-limit-without-a-named-fraction-uses-0.4", "name": "after a call with %g" % first, "c": cmp3(b, ref, rtol=1e-12), "want": "eq"})
            p.reset(); x = np.zeros(40); x[5:20] = 10.0; p.UpdatePBMEuler(1.0, x)
            c = float(p.getDTEuler(1e9, growth, 0))
            ev.append({"e": "rel", "group": "C07:step-limit-without-a-named-fraction-uses-0.4", "name": "after a call with %g and a reset" % first, "c": cmp3(c, ref, rtol=1e-12), "want": "eq"})
        # through the grain growth model: the user probes another fraction on gg.pbm, the model's own step is unchanged
        g1, g2 = mk(), mk()
        load(g1, "d2"); load(g2, "d2")
        for g in (g1, g2):
            g.finalTime = 100.0
        dx1 = g1.getdXdt(0.0, [g1.pbm.PSD]); dx2 = g2.getdXdt(0.0, [g2.pbm.PSD])
        g2.pbm.getDTEuler(100.0, g2._growthRate, g2.dissolutionIndex, 0.75)
        ev.append({"e": "rel", "group": "C07:step-limit-without-a-named-fraction-uses-0.4", "name": "GrainGrowthModel.getDt after a probe with 0.75",
                   "c": cmp3(float(g2.getDt(dx2)), float(g1.getDt(dx1)), rtol=1e-12), "want": "eq"})
    except Exception as ex:  # noqa
        ev.append({"e": "exception", "msg": "%s: %s" % (type(ex).__name__, str(ex)[:200])})
    return ev
