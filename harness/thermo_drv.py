"""Real pycalphad-backed thermodynamics: query-history purity (C09), element-order equivariance (C11), ordered scans (C12).

Everything here runs in one process (importing kawin + pycalphad costs ~13 s, building a Thermodynamics object seconds)."""
import copy, itertools, math
import numpy as np
from .kwn_drv import cmp3

RTOL = 1e-6          # frozen: three orders of magnitude above the measured solver scatter (<= 1e-9)
_OBJ = {}


def therm(kind, method="tangent", order=None, fresh=False):
    """cached Thermodynamics objects"""
    from kawin.thermo import BinaryThermodynamics, MulticomponentThermodynamics
    from kawin.tests.datasets import ALZR_TDB, NICRAL_TDB
    key = (kind, method, tuple(order or ()))
    if fresh or key not in _OBJ:
        if kind == "alzr":
            t = BinaryThermodynamics(ALZR_TDB, ["AL", "ZR"], ["FCC_A1", "AL3ZR"], drivingForceMethod=method)
        elif kind == "fecrni":
            # two phases that BOTH carry mobility data: diffusivities can be asked for the non-matrix phase
            from kawin.tests.datasets import FECRNI_DB
            t = MulticomponentThermodynamics(FECRNI_DB, ["FE", "CR", "NI"], ["FCC_A1", "BCC_A2"], drivingForceMethod=method)
        else:
            t = MulticomponentThermodynamics(NICRAL_TDB, list(order or ["NI", "CR", "AL"]), ["FCC_A1", "FCC_L12"], drivingForceMethod=method)
        t.setDFSamplingDensity(2000)
        t.setEQSamplingDensity(500)
        if fresh:
            return t
        _OBJ[key] = t
    return _OBJ[key]


def flat(v):
    if v is None:
        return np.array([np.nan])
    if isinstance(v, tuple) or (hasattr(v, "_fields")):
        parts = [flat(x) for x in v]
        return np.concatenate(parts) if parts else np.array([])
    try:
        return np.ravel(np.asarray(v, dtype=float))
    except Exception:
        return np.array([np.nan])


def vcmp(a, b, rtol=RTOL):
    a, b = flat(a), flat(b)
    if a.shape != b.shape:
        return "shape"
    if np.array_equal(np.isnan(a), np.isnan(b)) and np.allclose(np.nan_to_num(a), np.nan_to_num(b), rtol=rtol, atol=1e-300):
        return "eq"
    return "gt" if np.nansum(np.abs(a)) > np.nansum(np.abs(b)) else "lt"


# ------------------------------------------------------------------ C09 query histories
def binary_alphabet():
    xs = [0.002, 0.004, 0.006]
    Ts = [673.15, 723.15]
    gs = [0.0, 2000.0, 8000.0]
    A = []
    for x in xs:
        for T in Ts[:1] + ([Ts[1]] if x == 0.004 else []):
            A.append(("df", (x, T)))
            A.append(("interdiff", (x, T)))
            A.append(("tracer", (x, T)))
    for T in Ts:
        for g in gs:
            A.append(("ic", (T, g)))
        A.append(("icarr", (T, tuple(gs))))
    # temperature given as an array too: a thermal cycle (first = last) and a ramp, each point must equal its stand-alone value
    A.append(("icTarr", ((673.15, 723.15, 673.15), (2000.0, 2000.0, 8000.0))))
    A.append(("icTarr", ((673.15, 723.15, 723.15), (0.0, 2000.0, 8000.0))))
    return A


def ternary_alphabet():
    xs = [(0.08, 0.10), (0.10, 0.08), (0.06, 0.12)]
    Ts = [1073.15, 1023.15]
    A = []
    for x in xs:
        for T in Ts[:1] + ([Ts[1]] if x == xs[0] else []):
            for k in ("df", "interdiff", "tracer", "curv", "imping"):
                A.append((k, (x, T)))
    return A


def undersaturated_df_alphabet():
    """Ni-Cr-Al: driving force at compositions below the solvus (a defined, negative answer; with the tangent method the tangent point
    collapses onto the matrix there and the code falls back to sampling)"""
    return [("df", ((0.01, 0.01), 1073.15)), ("df", ((0.02, 0.015), 1073.15)), ("df", ((0.08, 0.10), 1473.15))]


def df_order_histories(alphabet, under):
    """an undersaturated driving-force query, caches kept, then supersaturated ones (and back)"""
    sup = [a for a in alphabet if a[0] == "df"]
    hist = []
    for u in under:
        for s_ in sup:
            hist.append([("q",) + u + (False,), ("q",) + s_ + (False,), ("q",) + u + (False,), ("q",) + s_ + (True,)])
        hist.append([("q",) + u + (False,)] + [("q",) + s_ + (False,) for s_ in sup])
    return hist


_SD = {}


def search_direction(x, T):
    """the search direction the precipitation model passes for an undersaturated matrix: the nucleus composition of the driving-force
    calculation at that point (computed once, from an object with empty caches)"""
    key = (tuple(x), T)
    if key not in _SD:
        t = therm("nicral", fresh=True)
        _, xb = t.getDrivingForce(np.array(x, dtype=float), T, removeCache=True)
        _SD[key] = tuple(float(v) for v in np.ravel(xb))
    return _SD[key]


def search_alphabet():
    """Ni-Cr-Al: curvature / impingement at undersaturated single-phase compositions WITH a search direction (a defined answer: the
    two-phase equilibrium found on the line towards the nucleus composition)"""
    A = []
    for x in [(0.01, 0.01), (0.02, 0.015)]:
        sd = search_direction(x, 1073.15)
        A.append(("curvS", (x, 1073.15, sd)))
        A.append(("impingS", (x, 1073.15, sd)))
    return A


def search_histories(alphabet, searches):
    """a stable kept-cache query, then a search query (kept or discarded), then stable queries again, and the search query first"""
    stable = [a for a in alphabet if a[0] in ("curv", "imping")]
    hist = []
    for s1 in stable[:4]:
        for q in searches:
            for r in (False, True):
                hist.append([("q",) + s1 + (False,), ("q",) + q + (r,), ("q",) + s1 + (False,), ("q",) + q + (False,)])
    for q in searches:
        hist.append([("q",) + q + (False,), ("q",) + q + (False,)] + [("q",) + s_ + (False,) for s_ in stable[:2]])
    return hist


def two_phase_alphabet():
    """Fe-Cr-Ni: driving force and the diffusivities of the matrix phase AND of the second phase"""
    xs = [(0.25, 0.10), (0.22, 0.12)]
    Ts = [1100.0, 1050.0]
    A = []
    for x in xs:
        for T in Ts[:1] + ([Ts[1]] if x == xs[1] else []):
            A.append(("df", (x, T)))
            for ph in ("FCC_A1", "BCC_A2"):
                A.append(("interdiffP", (x, T, ph)))
                A.append(("tracerP", (x, T, ph)))
    return A


def do_query(t, kind, point, remove):
    """returns (answer, argument intact?)"""
    if kind in ("interdiffP", "tracerP"):
        x, T, ph = point
        xa = np.array(x, dtype=float)
        keep = xa.copy()
        out = (t.getInterdiffusivity if kind == "interdiffP" else t.getTracerDiffusivity)(xa, T, removeCache=remove, phase=ph)
        return out, bool(np.array_equal(xa, keep))
    if kind in ("curvS", "impingS"):
        x, T, sd = point
        xa, sda = np.array(x, dtype=float), np.array(sd, dtype=float)
        keep = (xa.copy(), sda.copy())
        import io, contextlib
        with contextlib.redirect_stdout(io.StringIO()):
            out = (t.curvatureFactor if kind == "curvS" else t.impingementFactor)(xa, T, removeCache=remove, searchDir=sda)
        return out, bool(np.array_equal(xa, keep[0]) and np.array_equal(sda, keep[1]))
    if kind in ("df", "interdiff", "tracer", "curv", "imping"):
        x, T = point
        xa = np.array(x, dtype=float) if isinstance(x, tuple) else x
        keep = copy.deepcopy(xa)
        if kind == "df": out = t.getDrivingForce(xa, T, removeCache=remove)
        elif kind == "interdiff": out = t.getInterdiffusivity(xa, T, removeCache=remove)
        elif kind == "tracer": out = t.getTracerDiffusivity(xa, T, removeCache=remove)
        elif kind == "curv": out = t.curvatureFactor(xa, T, removeCache=remove)
        else: out = t.impingementFactor(xa, T, removeCache=remove)
        return out, bool(np.array_equal(np.asarray(xa), np.asarray(keep)))
    T, g = point
    if kind == "icTarr":
        Ta, ga = np.array(T, dtype=float), np.array(g, dtype=float)
        keep = (Ta.copy(), ga.copy())
        out = t.getInterfacialComposition(Ta, ga)
        return out, bool(np.array_equal(Ta, keep[0]) and np.array_equal(ga, keep[1]))
    if kind == "ic":
        return t.getInterfacialComposition(T, g), True
    ga = np.array(g, dtype=float)
    keep = ga.copy()
    out = t.getInterfacialComposition(T, ga)
    return out, bool(np.array_equal(ga, keep))


def memo_answers(system, alphabet):
    """answer of every (kind, point) from an object whose caches were just cleared"""
    t = therm(system, fresh=True)
    memo = {}
    for kind, point in alphabet:
        t.clearCache()
        memo[(kind, point)] = do_query(t, kind, point, True)[0]
    return memo


def stable_alphabet(alphabet, memo):
    """curvature / impingement queries are only defined where the precipitate is stable (positive driving force); outside,
    the code documents a fall-back to the previous result, which is outside the property's quantifier"""
    out = []
    for (k, p) in alphabet:
        if k in ("curv", "imping"):
            df = memo.get(("df", p))
            if df is None or not (float(np.atleast_1d(df[0])[0]) > 0) or memo[(k, p)] is None:
                continue
        out.append((k, p))
    return out


def gen_histories(rng, alphabet, tier):
    hist = []
    ops = [(k, p, r) for (k, p) in alphabet for r in (False, True)]
    # every ordered pair over a reduced alphabet (quick) / the full alphabet (thorough)
    base = alphabet if tier == "thorough" else alphabet[::3]
    for a, b in itertools.product(base, repeat=2):
        hist.append([("q",) + a + (False,), ("q",) + b + (False,)])
    # every query of the alphabet at least once, whatever the tier and the seed (batched kinds are compared point by point with
    # the same point evaluated alone)
    for a in alphabet:
        hist.append([("q",) + a + (True,), ("q",) + a + (False,)])
    n = 30 if tier == "quick" else 300
    for _ in range(n):
        h = []
        for _ in range(rng.randint(3, 6)):
            if rng.random() < 0.12:
                h.append(("clear",))
            else:
                k, p, r = rng.choice(ops)
                h.append(("q", k, p, r))
        hist.append(h)
    return hist


def aside_histories(alphabet, asides):
    """stable query, query where the precipitate is NOT stable (documented fall-back to the previous result, caches kept), then stable
    queries at other points: the later answers must be those of an object with empty caches"""
    stable = [a for a in alphabet if a[0] in ("curv", "imping", "df")]
    hist = []
    for s1 in [a for a in stable if a[0] in ("curv", "imping")][:2]:
        for ak in ("curv", "imping"):
            for ap in asides:
                for s2 in stable:
                    if s2[1] != s1[1]:
                        hist.append([("q",) + s1 + (False,), ("aside", ak, ap, False), ("q",) + s2 + (False,), ("q",) + s1 + (False,)])
    return hist


def run_history(system, h, memo):
    t = therm(system)
    t.clearCache()
    ev = [{"e": "init"}]
    first = {}
    try:
        for op in h:
            if op[0] == "clear":
                t.clearCache()
                ev.append({"e": "clear"})
                continue
            _, kind, point, remove = op
            if op[0] == "aside":
                import io, contextlib
                with contextlib.redirect_stdout(io.StringIO()):
                    out, intact = do_query(t, kind, point, remove)
                ev.append({"e": "aside", "kind": kind, "point": str(point), "remove": bool(remove), "argintact": intact})
                continue
            out, intact = do_query(t, kind, point, remove)
            key = (kind, point)
            e = {"e": "query", "kind": kind, "point": str(point), "remove": bool(remove), "vsmemo": vcmp(out, memo[key]),
                 "vsfirst": vcmp(out, first.get(key, out)), "argintact": intact}
            if kind == "icTarr":
                Ts_, gs_ = point
                alone = [memo.get(("ic", (Ti, gi))) for Ti, gi in zip(Ts_, gs_)]
                if all(a is not None for a in alone):
                    e["vsbatch"] = vcmp(np.array([[a[0], a[1]] for a in alone]).T, np.array([np.atleast_1d(out[0]), np.atleast_1d(out[1])]))
            if kind == "icarr":
                # the same points evaluated alone
                T, gs = point
                alone = [memo.get(("ic", (T, g))) for g in gs]
                if all(a is not None for a in alone):
                    e["vsbatch"] = vcmp(np.array([[a[0], a[1]] for a in alone]).T, np.array([np.atleast_1d(out[0]), np.atleast_1d(out[1])]))
            first.setdefault(key, out)
            ev.append(e)
    except Exception as ex:  # noqa
        ev.append({"e": "exception", "msg": "%s: %s" % (type(ex).__name__, str(ex)[:200])})
    return ev


def method_switch_history():
    """the driving-force method is switched on a long-lived object whose caches were kept: the next answer must be the one an object
    built with that method gives (events in the ThermoCache format)"""
    ms = ["tangent", "sampling", "approximate"]
    x, T = 0.004, 673.15
    ref = {m: therm("alzr", m, fresh=True).getDrivingForce(x, T, removeCache=True) for m in ms}
    ev = [{"e": "init"}]
    try:
        for m1 in ms:
            for m2 in ms:
                if m1 == m2:
                    continue
                t = therm("alzr", m1, fresh=True)
                t.getDrivingForce(x, T)                       # caches kept (the default)
                t.setDrivingForceMethod(m2)
                out = t.getDrivingForce(x, T)
                ev.append({"e": "query", "kind": "df after switching %s -> %s" % (m1, m2), "point": str((x, T)), "remove": False,
                           "vsmemo": vcmp(out, ref[m2]), "vsfirst": "eq", "argintact": True})
    except Exception as ex:  # noqa
        ev.append({"e": "exception", "msg": "%s: %s" % (type(ex).__name__, str(ex)[:200])})
    return ev


# ------------------------------------------------------------------ C11 element order
def element_order_pairs(tier):
    """paired answers under element orders; returns list of (label, events)"""
    orders = [["NI", "CR", "AL"], ["NI", "AL", "CR"]]
    # (an order with another FIRST element changes the dependent element, which C11 does not speak about: interdiffusivities
    #  are defined relative to it; the thorough tier therefore deepens points and methods, not the set of orders)
    base = orders[0]
    comp = {"NI": None, "CR": 0.08, "AL": 0.10}
    pts = [dict(CR=0.08, AL=0.10), dict(CR=0.10, AL=0.08), dict(CR=0.01, AL=0.01)] + ([dict(CR=0.05, AL=0.12), dict(CR=0.15, AL=0.05), dict(CR=0.02, AL=0.16)] if tier == "thorough" else [])
    methods = ["tangent", "sampling", "approximate", "curvature"]
    out = []
    for order in orders[1:]:
        for method in (methods if tier == "thorough" else methods[:2]):
            ta, tb = therm("nicral", method, base), therm("nicral", method, order)
            ev = [{"e": "init", "allowed": []}]
            for pt in pts:
                full = dict(pt); full["NI"] = 1 - sum(pt.values())
                xa = [full[e] for e in base[1:]]
                xb = [full[e] for e in order[1:]]
                T = 1073.15

                def named(vec, els):
                    v = np.atleast_1d(np.asarray(vec, dtype=float))
                    return {e: float(v[i]) for i, e in enumerate(els)} if len(v) == len(els) else {"?": float("nan")}
                try:
                    ta.clearCache(); tb.clearCache()
                    dga, xpa = ta.getDrivingForce(xa, T, removeCache=True)
                    dgb, xpb = tb.getDrivingForce(xb, T, removeCache=True)
                    ev.append({"e": "cmp", "name": "drivingForce(%s)@%s" % (method, pt), "c": vcmp(dga, dgb, 1e-5)})
                    if xpa is not None and np.all(np.isfinite(flat(xpa))) and np.all(np.isfinite(flat(xpb))):
                        na, nb = named(xpa, base[1:]), named(xpb, order[1:])
                        common = sorted(set(na) & set(nb))
                        ev.append({"e": "cmp", "name": "nucleusComposition(%s)@%s" % (method, pt),
                                   "c": vcmp([na[e] for e in common], [nb[e] for e in common], 1e-4) if common else "shape"})
                    if method == "tangent":
                        Da, Db = np.atleast_2d(ta.getInterdiffusivity(xa, T)), np.atleast_2d(tb.getInterdiffusivity(xb, T))
                        ia = [base[1:].index(e) for e in sorted(base[1:])]
                        ib = [order[1:].index(e) for e in sorted(order[1:])]
                        ev.append({"e": "cmp", "name": "interdiffusivity@%s" % pt, "c": vcmp(Da[np.ix_(ia, ia)], Db[np.ix_(ib, ib)], 1e-5)})
                        tra, trb = np.ravel(ta.getTracerDiffusivity(xa, T)), np.ravel(tb.getTracerDiffusivity(xb, T))
                        ja = [base.index(e) for e in sorted(base)]
                        jb = [order.index(e) for e in sorted(order)]
                        ev.append({"e": "cmp", "name": "tracerDiffusivity@%s" % pt, "c": vcmp(tra[ja], trb[jb], 1e-5) if len(tra) == 3 and len(trb) == 3 else "shape"})
                        ca, cb = ta.curvatureFactor(xa, T, removeCache=True), tb.curvatureFactor(xb, T, removeCache=True)
                        if ca is not None and cb is not None:
                            ev.append({"e": "cmp", "name": "curvature.eqAlpha@%s" % pt,
                                       "c": vcmp([named(ca.c_eq_alpha, base[1:])[e] for e in sorted(base[1:])], [named(cb.c_eq_alpha, order[1:])[e] for e in sorted(order[1:])], 1e-4)})
                            ev.append({"e": "cmp", "name": "curvature.beta@%s" % pt, "c": vcmp(ca.beta, cb.beta, 1e-4)})
                        else:
                            ev.append({"e": "cmp", "name": "curvature.none@%s" % pt, "c": "eq" if (ca is None) == (cb is None) else "gt"})
                except Exception as ex:  # noqa
                    ev.append({"e": "exception", "msg": "%s: %s" % (type(ex).__name__, str(ex)[:200])})
            out.append(("element-order %s vs %s/%s" % (base, order, method), ev))
    return out


def diffusion_order_pair():
    """short single-phase diffusion run with the solutes listed in both orders: profiles must be permuted copies"""
    from kawin.diffusion import SinglePhaseModel
    from kawin.solver.Solver import SolverType
    ev = [{"e": "init", "allowed": []}]
    prof = {}
    try:
        for order in (["NI", "CR", "AL"], ["NI", "AL", "CR"]):
            from kawin.thermo import GeneralThermodynamics
            from kawin.tests.datasets import NICRAL_TDB
            t = GeneralThermodynamics(NICRAL_TDB, order, ["FCC_A1", "BCC_A2"])
            m = SinglePhaseModel([-1e-4, 1e-4], 10, order, ["FCC_A1"], thermodynamics=t)
            m.setTemperature(1473)
            m.setCompositionStep(0.08, 0.12, 0, "CR")
            m.setCompositionStep(0.10, 0.05, 0, "AL")
            m.solve(3600.0, solverType=SolverType.EXPLICITEULER, maxDtFrac=0.2)
            prof[tuple(order)] = {e: np.array(m.getX(e)) for e in order}
        a, b = prof[("NI", "CR", "AL")], prof[("NI", "AL", "CR")]
        for e in ("NI", "CR", "AL"):
            ev.append({"e": "cmp", "name": "profile[%s]" % e, "c": vcmp(a[e], b[e], 1e-6)})
    except Exception as ex:  # noqa
        ev.append({"e": "exception", "msg": "%s: %s" % (type(ex).__name__, str(ex)[:200])})
    return ("diffusion profiles, solute order", ev)


class _OrderedEq:
    """scripted single-phase equilibrium of a system WITH an interstitial element, behaving like pycalphad: whatever order the user
    lists the elements in, composition sets and chemical potentials come back in alphabetical order"""
    def __init__(self, elements):
        self.elements = list(elements) + ["VA"]          # user order, dependent element first
        self.numElements = len(elements)
        self.phases = ["FCC"]
        self.mobility_correction = None
        self._alpha = sorted(elements)
        base = {"FE": 1e-17, "MN": 3e-17, "CR": 2e-17, "C": 8e-14, "N": 5e-14}
        self.mobCallables = {"FCC": {el: (lambda dof, el=el, b=base[el]: b * (1.0 + 2.0 * self._x.get("C", self._x.get("N", 0.0)))) for el in elements}}
        self._x = {}

    def clearCache(self):
        pass

    def getEq(self, x, T, gExtra=0, phases=None):
        from .homog_drv import _CS, _Wks
        xs = np.atleast_1d(np.asarray(x, dtype=float))
        full = {el: float(v) for el, v in zip(self.elements[1:-1], xs)}
        full[self.elements[0]] = 1.0 - sum(full.values())
        self._x = full
        X = np.array([full[el] for el in self._alpha])
        MU = [1000.0 * (i + 1) + 8.314 * float(T) * np.log(max(full[el], 1e-12)) for i, el in enumerate(self._alpha)]
        return _Wks([_CS("FCC", self._alpha, 1.0, X, None)], [MU])


def interstitial_order_pairs():
    """Fe-Mn-C and Fe-Cr-N (scripted): mobilities, chemical potentials and a short homogenization run with the solutes listed in both
    orders; the interstitial element sits at another index in the user's list than alphabetically in one of the two"""
    from kawin.diffusion.DiffusionParameters import computeMobility
    from kawin.diffusion import HomogenizationModel
    from kawin.solver.Solver import SolverType
    out = []
    for base in (["FE", "MN", "C"], ["FE", "CR", "N"]):
        other = [base[0], base[2], base[1]]
        ev = [{"e": "init", "allowed": []}]
        try:
            comp = {base[1]: 0.12, base[2]: 0.03}
            res = {}
            for order in (base, other):
                t = _OrderedEq(order)
                x = np.array([[comp[e] for e in order[1:]], [comp[e] * 0.5 for e in order[1:]]])
                md = computeMobility(t, x, 1200.0)
                mob = np.array(md.mobility)[:, 0, :]          # (points, elements in the user's order)
                mu = np.array(md.chemical_potentials)
                res[tuple(order)] = ({e: mob[:, i] for i, e in enumerate(order)}, {e: mu[:, i] for i, e in enumerate(order)})
                m = HomogenizationModel([0.0, 1e-4], 8, order, ["FCC"], thermodynamics=_OrderedEq(order))
                m.setTemperature(1200.0)
                m.setCompositionStep(0.05, 0.15, 0.5e-4, base[1])
                m.setCompositionStep(0.04, 0.01, 0.5e-4, base[2])
                m.solve(200.0, solverType=SolverType.EXPLICITEULER, maxDtFrac=0.1)
                res[tuple(order)] += ({e: np.array(m.getX(e)) for e in order}, np.array(m._recordedTime) if getattr(m, "_recordedTime", None) is not None else np.array([m.t]))
            A, B = res[tuple(base)], res[tuple(other)]
            for e in base:
                ev.append({"e": "cmp", "name": "mobility[%s]" % e, "c": vcmp(A[0][e], B[0][e], 1e-9)})
                ev.append({"e": "cmp", "name": "chemicalPotential[%s]" % e, "c": vcmp(A[1][e], B[1][e], 1e-9)})
                ev.append({"e": "cmp", "name": "profile[%s]" % e, "c": vcmp(A[2][e], B[2][e], 1e-9)})
            ev.append({"e": "cmp", "name": "finalTime", "c": vcmp(A[3][-1:], B[3][-1:], 1e-12)})
        except Exception as ex:  # noqa
            ev.append({"e": "exception", "msg": "%s: %s" % (type(ex).__name__, str(ex)[:200])})
        out.append(("interstitial system %s vs %s (scripted)" % (base, other), ev))
    return out


def element_order_part(ctx):
    """called by the C11 check"""
    from . import traces as T
    from .tlc import MachineryError
    pairs = element_order_pairs(ctx.tier) + [diffusion_order_pair()] + interstitial_order_pairs()
    traces = [ev for (_, ev) in pairs]
    reached, res = T.validate("Equiv", [], traces, "c11_elements")
    ctx.add_tlc(res, "Equiv over %d element-order pairs (real Ni-Cr-Al database)" % len(traces))
    if res.violated or reached is None:
        raise MachineryError("Equiv failed (elements)")
    for (label, ev), v in zip(pairs, reached):
        ncmp = sum(1 for e in ev if e["e"] == "cmp")
        ctx.replayed += ncmp
        ctx.case(label, nontrivial=ncmp > 2, sample={"pair": label, "events": ev[1:4]} if len(ctx.samples) < 5 else None)
        if v["l"] != len(ev) + 1 or v["fails"]:
            names = sorted(set(f[0].split("@")[0].split("(")[0] for f in v["fails"]))
            ctx.violation("elementorder:%s" % ",".join(names)[:80], "%s: %s" % (label, v["fails"][:4]), {"pair": label, "fails": v["fails"]})


# ------------------------------------------------------------------ C12 ordered scans
def gibbs_scans(tier):
    """interfacial composition over ascending g; dG at the returned matrix composition equals g (within the 1 J/mol offset), with
    the tangent and the sampling method, caches discarded after every call and caches kept on one long-lived object while the
    temperature changes from scan to scan (up and back down)"""
    out = []
    ng = 16 if tier == "quick" else 40
    for method, remove, Ts in (("tangent", True, [673.15, 723.15] + ([773.15] if tier == "thorough" else [])),
                               ("tangent", False, [673.15, 773.15, 673.15]), ("sampling", False, [673.15, 773.15, 673.15]),
                               ("sampling", True, [723.15])):
        t = therm("alzr", method)
        t.clearCache()
        for k, T in enumerate(Ts):
            gs = np.linspace(0.0, 60000.0, ng if remove or tier != "quick" else 8)
            ev = [{"e": "init"}]
            try:
                xa, xb = t.getInterfacialComposition(T, gs.copy())
                prev = None
                for g, a in zip(gs, xa):
                    sent = bool(a == -1)
                    e = {"e": "g", "g": float(g), "sentinel": sent, "vsprev": "eq", "dgvsg": "eq"}
                    if not sent:
                        if prev is not None:
                            e["vsprev"] = cmp3(float(a), prev, rtol=1e-9)
                        dg, _ = t.getDrivingForce(float(a), T, removeCache=remove)
                        # documented offset: 1 J/mol added to the precipitate when the boundary is computed
                        e["dgvsg"] = "eq" if abs(float(dg) - float(g)) <= 1.0 + 2e-3 * abs(float(g)) + 2.0 else ("gt" if float(dg) > float(g) else "lt")
                        prev = float(a)
                    ev.append(e)
            except Exception as ex:  # noqa
                ev.append({"e": "exception", "msg": "%s: %s" % (type(ex).__name__, str(ex)[:200])})
            out.append(("gibbs-thomson scan #%d T=%g (%s, caches %s)" % (k, T, method, "discarded" if remove else "kept"), ev))
        t.clearCache()
    return out


def supersaturation_scans(tier):
    """driving force over ascending supersaturation, four methods side by side; once with the equilibrium caches discarded after every
    call and once with the caches KEPT (the default, and what the precipitation model does) while the temperature changes between
    scans on the same long-lived objects, in both temperature orders"""
    out = []
    methods = ["tangent", "sampling", "approximate", "curvature"]
    ts = {m: therm("alzr", m) for m in methods}
    for label, Ts, remove in (("caches discarded", [673.15, 723.15], True), ("caches kept, heating", [673.15, 773.15], False),
                              ("caches kept, cooling", [773.15, 673.15], False)):
        for t in ts.values():
            t.clearCache()
        for T in Ts:
            xe, _ = therm("alzr", "tangent").getInterfacialComposition(T, 0)
            xs = np.concatenate([np.linspace(0.2, 0.9, 4) * xe, np.linspace(1.1, 6.0, 8 if tier == "quick" else 20) * xe])
            ev = [{"e": "init"}]
            prev = None
            try:
                for x in xs:
                    dgs = {}
                    for m in methods:
                        dg, _ = ts[m].getDrivingForce(float(x), T, removeCache=remove)
                        dgs[m] = float(dg)
                    ref = dgs["tangent"]
                    far = abs(x / xe - 1) > 0.05
                    agree = (not far) or len({np.sign(v) for v in dgs.values()}) == 1
                    e = {"e": "x", "x": float(x), "side": "above" if x > xe * 1.02 else ("below" if x < xe * 0.98 else "at"),
                         "sign": int(np.sign(ref)), "vsprev": "eq" if prev is None else cmp3(ref, prev, rtol=1e-9, atol=1e-6), "methodsagree": bool(agree)}
                    prev = ref
                    ev.append(e)
            except Exception as ex:  # noqa
                ev.append({"e": "exception", "msg": "%s: %s" % (type(ex).__name__, str(ex)[:200])})
            out.append(("supersaturation scan T=%g (%s)" % (T, label), ev))
    for t in ts.values():
        t.clearCache()
    return out
