"""Driver for stopping conditions on real PrecipitateModel runs (C19)."""
import io, contextlib, math
import numpy as np
from kawin.precipitation.StoppingConditions import (PrecipitationStoppingCondition, Inequality, VolumeFractionCondition,
    AverageRadiusCondition, DrivingForceCondition, NucleationRateCondition, PrecipitateDensityCondition, CompositionCondition)
from kawin.precipitation.TimeTemperaturePrecipitation import TTPCalculator
from kawin.solver.Solver import SolverType
from . import kwn_drv as K
from .kwn_drv import cmp3

KINDS = {"vf": (VolumeFractionCondition, "volFrac"), "ravg": (AverageRadiusCondition, "Ravg"), "dg": (DrivingForceCondition, "drivingForce"),
         "nuc": (NucleationRateCondition, "nucRate"), "dens": (PrecipitateDensityCondition, "precipitateDensity"), "comp": (CompositionCondition, "composition")}


class Spy(PrecipitationStoppingCondition):
    """tested after the real conditions on every step: snapshots their state.  Never satisfied in 'or' mode;
    always satisfied in 'and' mode (TTP calculator), so it never changes the stop decision."""
    def __init__(self, conds, always):
        super().__init__(Inequality.GREATER_THAN, 0)
        self.conds, self.always, self.snaps = conds, always, []

    def testCondition(self, model):
        self.snaps.append((int(model.pData.n), [(bool(c.isSatisfied()), float(c.satisfiedTime())) for c in self.conds]))

    def isSatisfied(self):
        return self.always

    def reset(self):
        super().reset()


def make_cond(spec):
    kind, gt, thr, mode, sel = spec
    cls = KINDS[kind][0]
    ineq = Inequality.GREATER_THAN if gt else Inequality.LESSER_THAN
    if kind == "comp":
        return cls(ineq, thr, element=sel)
    return cls(ineq, thr, phase=sel)


def value(model, spec, n):
    kind, gt, thr, mode, sel = spec
    arr = getattr(model.pData, KINDS[kind][1])
    if kind == "comp":
        e = 0 if sel is None else list(model.elements).index(sel)
        return float(arr[n, e])
    return float(arr[n, model.phaseIndex(sel)])


def holds(v, spec):
    return bool(v > spec[2]) if spec[1] else bool(v < spec[2])


def events_for_segment(model, specs, spy_snaps, n0, calls_ends, final_n):
    """events for rows n0+1.. of one run segment (after a reset n0 = 0)"""
    ev = []
    prev_t = {}
    snaps = {n: s for n, s in spy_snaps}
    t = model.pData.time
    ends = {e[1]: e for e in calls_ends}
    for n in range(n0 + 1, final_n + 1):
        if n not in snaps:
            ev.append({"e": "exception", "msg": "no condition test at row %d" % n})
            break
        c = []
        for i, sp in enumerate(specs):
            sat, ts = snaps[n][i]
            v, pv = value(model, sp, n), value(model, sp, n - 1)
            if v != pv:
                interp = (t[n] - t[n - 1]) * (sp[2] - pv) / (v - pv) + t[n - 1]
            else:
                interp = float("nan")
            c.append({"holds": holds(v, sp), "sat": sat, "tlo": cmp3(ts, float(t[n - 1]), rtol=1e-12), "thi": cmp3(ts, float(t[n]), rtol=1e-12),
                      "tneg": bool(ts == -1),
                      "ti": cmp3(ts, interp, rtol=1e-9), "tsame": bool(i not in prev_t or prev_t[i] == ts or not (n - 1 in snaps and snaps[n - 1][i][0]))})
            prev_t[i] = ts
        last = n in ends
        en = ends.get(n)
        ev.append({"e": "step", "n": n, "c": c, "last": last, "final": last,
                   "atEnd": bool(last and cmp3(float(t[n]), en[2] + en[3], rtol=4e-16) == "eq"), "callEnd": bool(last)})
    return ev


def run_stop(cfg):
    """cfg: KWN config + stop: list of (kind, gt, thr, mode, selector)"""
    specs = cfg["stop"]
    m, th, obs = K.build(cfg)
    conds = [make_cond(s) for s in specs]
    if cfg.get("preclear"):
        # the model carried other conditions before (opposite modes), which were cleared: nothing of them may survive
        for s in specs:
            m.addStoppingCondition(make_cond((s[0], s[1], s[2], s[3], s[4])), "or" if s[3] == "and" else "and")
        m.clearStoppingConditions()
    for c, s in zip(conds, specs):
        m.addStoppingCondition(c, s[3])
    spy = Spy(conds, always=False)
    m.addStoppingCondition(spy, "or")
    it = SolverType.RK4 if cfg.get("iter", "euler") == "rk4" else SolverType.EXPLICITEULER
    ev = [{"e": "init", "conds": [{"or": s[3] == "or", "gt": bool(s[1])} for s in specs], "holds0": []}]
    ends = []
    err = None
    capped = False
    try:
        m.setup()
        ev[0]["holds0"] = [holds(value(m, s, 0), s) for s in specs]
        for (span, maxfrac) in cfg["calls"]:
            n0, t0 = int(m.pData.n), float(m.pData.time[m.pData.n])
            m.solve(span, solverType=it, maxDtFrac=maxfrac)
            ends.append((n0, int(m.pData.n), t0, span))
    except K.StepCap:
        capped = True      # the observer's cap fires before the conditions of that step are tested: drop that row
    except Exception as ex:  # noqa
        err = "%s: %s" % (type(ex).__name__, str(ex)[:200])
    ev += events_for_segment(m, specs, spy.snaps, 0, ends, int(m.pData.n) - (1 if capped else 0))
    nsteps = int(m.pData.n)
    # second run on the SAME model and condition objects after reset(): short enough that late conditions are not met again
    if cfg.get("rerun") and not err and not capped:
        try:
            m.reset()
            spy.snaps = []
            obs.snaps = []
            ev.append({"e": "reset", "holds0": [holds(value(m, s, 0), s) for s in specs], "sat": [bool(c.isSatisfied()) for c in conds],
                       "tcleared": [bool(c.satisfiedTime() == -1) for c in conds]})
            m.setup()
            ends2 = []
            for (span, maxfrac) in cfg["rerun"]:
                n0, t0 = int(m.pData.n), float(m.pData.time[m.pData.n])
                m.solve(span, solverType=it, maxDtFrac=maxfrac)
                ends2.append((n0, int(m.pData.n), t0, span))
            ev += events_for_segment(m, specs, spy.snaps, 0, ends2, int(m.pData.n))
            nsteps += int(m.pData.n)
        except K.StepCap:
            pass
        except Exception as ex:  # noqa
            err = "%s: %s" % (type(ex).__name__, str(ex)[:200])
    ev.append({"e": "exception", "msg": err} if err else {"e": "done"})
    return ev, {"steps": nsteps, "error": err, "stopped_at": [e[1] for e in ends], "capped": capped}


def run_ttp(cfg):
    """TTPCalculator over a few temperatures with the given conditions (all 'and' as the calculator installs them)"""
    specs = [(s[0], s[1], s[2], "and", s[4]) for s in cfg["stop"]]
    m, th, obs = K.build(cfg)
    obs.cap = 10 ** 9
    conds = [make_cond(s) for s in specs]
    if cfg.get("preclear"):
        for s in specs:
            m.addStoppingCondition(make_cond(s), "or")       # the calculator clears these and installs its own, and-combined
    spy = Spy(conds, always=True)
    ev = [{"e": "init", "conds": [{"or": False, "gt": bool(s[1])} for s in specs], "holds0": [False] * len(specs)}]
    err = None
    segs = []
    try:
        if cfg.get("presatisfied"):
            # the condition objects arrive already satisfied (a preview run on ANOTHER model), the calculator's model has never been solved
            m0, _, o0 = K.build(cfg)
            o0.cap = 10 ** 9
            for c_ in conds:
                m0.addStoppingCondition(c_, "and")
            with contextlib.redirect_stdout(io.StringIO()):
                m0.solve(cfg["ttp"][3])
            if not all(c_.isSatisfied() for c_ in conds):
                raise RuntimeError("harness: preview run did not satisfy the conditions")
        calc = TTPCalculator(m, conds + [spy])
        orig = calc._getStopTime

        def wrapped(T):
            spy.snaps = []
            with contextlib.redirect_stdout(io.StringIO()):
                vals = orig(T)
            segs.append((float(T), list(spy.snaps), int(m.pData.n), [holds(value(m, s, 0), s) for s in specs], [float(v) for v in vals[:len(specs)]],
                         np.array(m.pData.time).copy(), {k: np.array(getattr(m.pData, KINDS[k][1])).copy() for k in set(s[0] for s in specs)}))
            return vals
        calc._getStopTime = wrapped
        lo, hi, nT, maxTime = cfg["ttp"]
        obs.m = m
        calc.calculateTTP(lo, hi, nT, maxTime)
    except Exception as ex:  # noqa
        err = "%s: %s" % (type(ex).__name__, str(ex)[:200])
    # every temperature is a segment that starts from a reset model
    class Frozen:   # minimal read-only view of the histories of a finished segment
        pass
    for (T, snaps, nfin, h0, vals, times, arrs) in segs:
        fm = Frozen(); fm.pData = Frozen(); fm.pData.time = times
        for k, a in arrs.items():
            setattr(fm.pData, KINDS[k][1], a)
        fm.elements = list(m.elements); fm.phaseIndex = m.phaseIndex
        ev.append({"e": "reset", "holds0": h0, "sat": [False] * len(specs), "tcleared": [True] * len(specs)})
        seg = events_for_segment(fm, specs, snaps, 0, [(0, nfin, 0.0, cfg["ttp"][3])], nfin)
        # what the calculator reports for this temperature must be the conditions' satisfied times (or -1)
        if seg and seg[-1]["e"] == "step":
            for i, sp in enumerate(specs):
                seg[-1]["c"][i]["reported"] = bool(vals[i] == snaps[-1][1][i][1]) if snaps else False
                seg[-1]["c"][i]["repneg"] = bool(vals[i] == -1)
        ev += seg
    ev.append({"e": "exception", "msg": err} if err else {"e": "done"})
    return ev, {"steps": sum(s[2] for s in segs), "error": err, "temps": [s[0] for s in segs]}


def reference_trajectories():
    """an unconditioned reference run: used only to place thresholds early / late / never"""
    cfg = dict(phases=[dict(name="beta", gamma=0.05)], D=1e-16, calls=[(100.0, 0.02)], cap=400)
    res = K.run(cfg)
    d = res["model"].pData
    n = d.n
    out = {}
    for k, (cls, attr) in KINDS.items():
        a = np.array(getattr(d, attr))[: n + 1, 0]
        out[k] = [float(v) for v in a]
    return out


def gen_configs(rng, tier):
    ref = reference_trajectories()
    base = dict(phases=[dict(name="beta", gamma=0.05)], D=1e-16, cap=400)
    cfgs = []

    def thr_for(kind, where):
        a = ref[kind]
        lo, hi = min(a), max(a)
        if where == "early": return a[len(a) // 4] if a[len(a) // 4] != a[0] else (lo + hi) / 2
        if where == "late": return a[(3 * len(a)) // 4]
        if where == "never": return hi * 10 + 1
        return lo - abs(lo) - 1e-30        # "start": already satisfied at row 0 for GREATER_THAN
    kinds = list(KINDS)
    n = 40 if tier == "quick" else 300
    for i in range(n):
        nc = rng.choice([1, 1, 2, 3])
        stop = []
        for _ in range(nc):
            k = rng.choice(kinds)
            where = rng.choice(["early", "late", "never", "start"])
            a = ref[k]
            increasing = a[-1] >= a[0]
            thr = thr_for(k, where)
            gt = increasing if where != "start" else True
            if where == "never" and not increasing:
                thr = min(a) - abs(min(a)) - 1.0
            stop.append((k, bool(gt), float(thr), rng.choice(["or", "and"]), None))
        c = dict(base, tag="stop-%d" % i, stop=stop, iter=rng.choice(["euler", "euler", "rk4"]),
                 calls=[(100.0, 0.02)] if rng.random() < 0.7 else [(40.0, 0.02), (60.0, 0.02)])
        if i % 3 == 0:
            c["rerun"] = [(10.0, 0.05)]       # after reset(): too short for the "late" thresholds
        if i % 4 == 1:
            c["preclear"] = True
        cfgs.append(c)
    # non-monotonic monitored quantities (nucleation burst, density peak): met early, fall back below the threshold later,
    # and-combined with a condition that is met late / or-combined with one never met
    burst = dict(phases=[dict(name="beta", gamma=0.05)], D=1e-15, cap=900)
    rb = K.run(dict(burst, calls=[(1.5, 0.02)]))
    db = rb["model"].pData
    nb = int(db.n)
    nuc, dens, vf = db.nucRate[:nb + 1, 0], db.precipitateDensity[:nb + 1, 0], db.volFrac[:nb + 1, 0]
    if 0 < int(np.argmax(nuc)) < nb - 50:
        late_vf = float(vf[int(np.argmax(nuc)) + (nb - int(np.argmax(nuc))) // 2])
        for j, (k, thr) in enumerate((("nuc", float(nuc.max()) / 2), ("dens", float(dens.max()) * 0.97))):
            for mode2 in ("and", "or"):
                stop = [(k, True, thr, "and", None), ("vf", True, late_vf, mode2 if mode2 == "and" else "and", None)]
                if mode2 == "or":
                    stop.append(("ravg", True, 1.0, "or", None))      # never met
                cfgs.append(dict(burst, tag="stop-burst-%s-%s" % (k, mode2), stop=stop, iter="euler", calls=[(1.5, 0.02)], preclear=(mode2 == "and")))
    # selectors: an element other than the first solute (ternary run), a phase other than the first (two-phase run); the thresholds are
    # crossed at different steps by the selected and by the first element / phase
    try:
        mbase = dict(multi=True, phases=[dict(name="beta", gamma=0.05)], cap=500)
        rm = K.run(dict(mbase, calls=[(1.0, 0.02)]))
        dm = rm["model"].pData
        nm = int(dm.n)
        cB, cC = dm.composition[:nm + 1, 0], dm.composition[:nm + 1, 1]

        def frac_thr(a, f):
            return float(a[0] + f * (a[-1] - a[0]))
        if nm > 20 and cB[-1] != cB[0] and cC[-1] != cC[0]:
            for j, (el, a, f) in enumerate((("C", cC, 0.7), ("B", cB, 0.3), ("C", cC, 0.2))):
                gt = bool(a[-1] > a[0])
                cfgs.append(dict(mbase, tag="stop-element-%s-%d" % (el, j), stop=[("comp", gt, frac_thr(a, f), "or", el)], iter="euler" if j != 1 else "rk4",
                                 calls=[(1.0, 0.02)], rerun=[(0.05, 0.05)] if j == 0 else None))
            cfgs.append(dict(mbase, tag="stop-elements-and", stop=[("comp", bool(cC[-1] > cC[0]), frac_thr(cC, 0.6), "and", "C"), ("comp", bool(cB[-1] > cB[0]), frac_thr(cB, 0.3), "and", "B")],
                             iter="euler", calls=[(0.5, 0.02), (0.5, 0.02)]))
        two = dict(phases=[dict(name="beta", gamma=0.05), dict(name="gamma", gamma=0.06, xe0=0.004, K=1.2e5, xb=0.3, VmB=1.2e-5)], D=1e-16, cap=500)
        r2 = K.run(dict(two, calls=[(100.0, 0.02)]))
        d2 = r2["model"].pData
        n2 = int(d2.n)
        for j, (k, attr) in enumerate((("vf", "volFrac"), ("dens", "precipitateDensity"), ("ravg", "Ravg"))):
            a = getattr(d2, attr)[:n2 + 1, 1]
            if a[-1] > a[0]:
                cfgs.append(dict(two, tag="stop-phase-gamma-%s" % k, stop=[(k, True, frac_thr(a, 0.5), "or", "gamma")], iter="euler" if j else "rk4", calls=[(100.0, 0.02)]))
        a1, a2 = d2.volFrac[:n2 + 1, 0], d2.volFrac[:n2 + 1, 1]
        if a1[-1] > a1[0] and a2[-1] > a2[0]:
            cfgs.append(dict(two, tag="stop-phases-and", stop=[("vf", True, frac_thr(a1, 0.3), "and", "beta"), ("vf", True, frac_thr(a2, 0.6), "and", "gamma")], iter="euler", calls=[(100.0, 0.02)]))
    except Exception:  # noqa  (the reference runs themselves are judged by the other checks)
        pass
    for c in cfgs:
        if c.get("rerun", 1) is None:
            del c["rerun"]
    return cfgs, ref


def gen_ttp(rng, tier, ref):
    cfgs = []
    a = ref["vf"]
    for i in range(2 if tier == "quick" else 6):
        thr1 = a[len(a) // 3] if a[len(a) // 3] > 0 else max(a) / 2
        stop = [("vf", True, float(thr1), "and", None), ("dens", True, float(ref["dens"][len(a) // 2]), "and", None)]
        if i % 2:
            stop.append(("nuc", True, float(max(ref["nuc"]) * 100 + 1), "and", None))   # never met: runs to maxTime
        cfgs.append(dict(phases=[dict(name="beta", gamma=0.05)], D=1e-16, cap=10 ** 9, tag="ttp-%d" % i, stop=stop, se=1e-5,
                         ttp=(990.0, 1010.0, 2 + i % 2, 60.0), calls=[], preclear=(i % 2 == 0)))
    # a sweep that ends above the temperature at which the volume-fraction threshold can be reached: met at the first
    # temperature, not met at the last (the calculator re-uses the same condition objects after model.reset())
    for i, it in enumerate(("first-met-last-not",)):
        stop = [("vf", True, 0.004, "and", None), ("ravg", True, 2e-10, "and", None)]
        cfgs.append(dict(phases=[dict(name="beta", gamma=0.05)], D=1e-15, cap=10 ** 9, tag="ttp-" + it, stop=stop, se=2.4e-4, x0=0.02,
                         ttp=(1000.0, 1058.0, 2, 30.0), calls=[]))
    # condition objects that arrive satisfied from a preview run on another model; the calculator's own model is fresh
    stop = [("vf", True, float(a[len(a) // 3] if a[len(a) // 3] > 0 else max(a) / 2), "and", None), ("dens", True, float(ref["dens"][len(a) // 2]), "and", None)]
    cfgs.append(dict(phases=[dict(name="beta", gamma=0.05)], D=1e-16, cap=10 ** 9, tag="ttp-presatisfied", stop=stop, se=1e-5,
                     ttp=(990.0, 1010.0, 2, 60.0), calls=[], presatisfied=True))
    return cfgs
