"""Batch trace validation: many traces, one TLC run (per constant assignment)."""
import os, json
from .tlc import run_tlc, OUT, SPEC, MachineryError


def write_cfg(name, lines):
    """generated TLC configuration; the file name carries the process id (checks may run side by side) and the file is removed at exit"""
    import atexit
    suffix = "-%d" % os.getpid()
    path = os.path.join(SPEC, "gen_" + name + ("" if name.endswith(suffix) else suffix) + ".cfg")
    with open(path, "w") as f:
        f.write("\n".join(lines) + "\n")
    if path not in _GENERATED:
        _GENERATED.add(path)
        atexit.register(lambda p=path: os.path.exists(p) and os.remove(p))
    return os.path.basename(path)


_GENERATED = set()


def validate(module, cfg_lines, traces, tag, *, invariants=(), properties=(), timeout=1800, env=None,
             spec="TSpec", heap=None):
    """traces: list of event lists (first element = init record).  Returns (reached list, TLCResult).
    reached[i] == len(traces[i]) + 1  <=>  trace i accepted by the specification."""
    os.makedirs(os.path.join(OUT, "traces"), exist_ok=True)
    base = os.path.join(OUT, "traces", "%s-%d" % (tag, os.getpid()))
    tin, tout = base + ".json", base + ".reached.json"
    with open(tin, "w") as f:
        json.dump(traces, f)
    if os.path.exists(tout):
        os.remove(tout)
    lines = ["SPECIFICATION " + spec, "CONSTRAINT Reached", "POSTCONDITION Report", "CHECK_DEADLOCK FALSE"]
    lines += list(cfg_lines)
    lines += ["INVARIANT " + i for i in invariants]
    lines += ["PROPERTY " + p for p in properties]
    cfg = write_cfg("%s-%d" % (tag, os.getpid()), lines)      # (unique per process: several checks may run side by side)
    e = {"TRACES": tin, "OUTF": tout}
    if env:
        e.update(env)
    res = run_tlc(module, cfg, workers=1, env=e, timeout=timeout, tag=tag, heap=heap)
    reached = None
    if os.path.exists(tout):
        with open(tout) as f:
            reached = json.load(f)
        os.remove(tout)
    elif not res.violated:
        raise MachineryError("trace validation %s wrote no report:\n%s" % (tag, res.out[-3000:]))
    os.remove(tin)
    os.remove(os.path.join(SPEC, cfg))
    return reached, res


def rejected(traces, reached):
    """indices (0-based) of rejected traces with the 1-based index of the first unconsumed event"""
    bad = []
    for i, tr in enumerate(traces):
        if reached[i] != len(tr) + 1:
            bad.append((i, reached[i]))
    return bad
