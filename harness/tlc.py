"""Thin runner around TLC: one place for metadir, workers, timeouts and output parsing.

Exit-code policy of the whole framework: a TLC *machinery* failure (parse error, timeout,
overflow, missing coverage) raises MachineryError -> the check exits 2, never a verdict.
"""
import os, re, shutil, subprocess, time, json, hashlib

VERIF = os.path.dirname(os.path.dirname(os.path.abspath(__file__)))
SPEC = os.path.join(VERIF, "spec")
OUT = os.path.join(VERIF, "out")
JAR_CP = "/opt/veriftools/tla/tla2tools.jar:/opt/veriftools/tla/CommunityModules-deps.jar"


class MachineryError(Exception):
    pass


class TLCResult:
    def __init__(self):
        self.ok = False            # finished, no error reported
        self.violated = None       # name of violated invariant / property / assumption, if any
        self.generated = 0
        self.distinct = 0
        self.depth = 0
        self.wall = 0.0
        self.out = ""
        self.printed = []          # lines printed by PrintT (raw TLA+ values, one per line)
        self.coverage = {}         # action name -> (distinct, total)
        self.cmd = ""
        self.trace_text = ""

    def as_dict(self):
        return dict(ok=self.ok, violated=self.violated, generated=self.generated,
                    distinct=self.distinct, depth=self.depth, wall_s=round(self.wall, 2), cmd=self.cmd)


_noise = re.compile(r"^(Semantic processing|Linting|Parsing file|Warning: Unrecognized|\s*$)")


def run_tlc(module, cfg=None, *, workers=None, env=None, timeout=1800, simulate=None,
            coverage=False, deadlock=True, dump=None, depth=None, seed=None, tag=None,
            dfs_queue=False, extra=None, heap=None):
    """Run TLC on spec/<module>.tla with spec/<cfg>. Returns TLCResult.

    deadlock=False passes -deadlock (i.e. disables deadlock checking).
    """
    os.makedirs(OUT, exist_ok=True)
    cfg = cfg or (module + ".cfg")
    tag = tag or (module + "-" + os.path.splitext(os.path.basename(cfg))[0])
    metadir = os.path.join(OUT, "meta", tag + "-" + str(os.getpid()))
    shutil.rmtree(metadir, ignore_errors=True)
    os.makedirs(metadir, exist_ok=True)
    java = ["java", "-XX:+UseParallelGC", "-Xss256m"]
    if heap:
        java.append("-Xmx" + heap)
    if dfs_queue:
        java.append("-Dtlc2.tool.queue.IStateQueue=StateDeque")
    cmd = java + ["-cp", JAR_CP, "tlc2.TLC", "-metadir", metadir, "-noGenerateSpecTE",
                  "-config", cfg]
    if workers is None:
        workers = os.cpu_count() or 4
    cmd += ["-workers", str(workers)]
    if not deadlock:
        cmd.append("-deadlock")
    if coverage:
        cmd += ["-coverage", "1"]
    if simulate:
        cmd += ["-simulate", simulate]
    if depth:
        cmd += ["-depth", str(depth)]
    if seed is not None:
        cmd += ["-seed", str(seed)]
    if dump:
        cmd += ["-dump", "dot,actionlabels", dump]
    if extra:
        cmd += list(extra)
    cmd.append(module + ".tla")
    e = dict(os.environ)
    e.pop("JAVA_TOOL_OPTIONS", None)
    if env:
        e.update({k: str(v) for k, v in env.items()})
    t0 = time.time()
    try:
        p = subprocess.run(cmd, cwd=SPEC, env=e, capture_output=True, text=True, timeout=timeout)
    except subprocess.TimeoutExpired:
        subprocess.run(["pkill", "-f", metadir], check=False)
        shutil.rmtree(metadir, ignore_errors=True)
        raise MachineryError("TLC timeout after %ss: %s" % (timeout, " ".join(cmd)))
    r = TLCResult()
    r.wall = time.time() - t0
    r.cmd = "tlc " + " ".join(cmd[cmd.index("tlc2.TLC") + 1:])
    lines = [l for l in p.stdout.splitlines() if not _noise.match(l)]
    r.out = "\n".join(lines)
    shutil.rmtree(metadir, ignore_errors=True)
    m = re.search(r"(\d+) states generated, (\d+) distinct states found", r.out)
    if m:
        r.generated, r.distinct = int(m.group(1)), int(m.group(2))
    m = re.search(r"depth of the complete state graph search is (\d+)", r.out)
    if m:
        r.depth = int(m.group(1))
    # violations
    m = re.search(r"Error: Invariant (\S+) is violated", r.out)
    if m:
        r.violated = m.group(1)
    m2 = re.search(r"Error: Action property (\S+) is violated", r.out)
    if m2:
        r.violated = m2.group(1)
    if re.search(r"Error: Temporal properties were violated", r.out):
        r.violated = r.violated or "temporal"
    if "Error: Deadlock reached" in r.out:
        r.violated = r.violated or "deadlock"
    m3 = re.search(r"Error: Assumption line (\d+).* is false", r.out)
    if m3:
        r.violated = "assumption@%s" % m3.group(1)
    if "The postcondition" in r.out and "violated" in r.out or "Error: Postcondition" in r.out:
        r.violated = r.violated or "postcondition"
    if r.violated:
        i = r.out.find("Error:")
        r.trace_text = r.out[i:i + 20000]
    finished = ("Model checking completed" in r.out) or ("Finished in" in r.out and simulate)
    has_error = "Error:" in r.out
    r.ok = bool(finished and not has_error and p.returncode == 0)
    if not r.ok and not r.violated:
        i0 = max(r.out.find("Error:"), 0)
        raise MachineryError("TLC failed (rc=%s) without a property verdict:\n%s\n...\n%s" %
                             (p.returncode, r.out[i0:i0 + 3500], p.stderr[-1000:]))
    # printed values (PrintT) -- every line that is not a known TLC message and starts a TLA value
    r.printed = [l for l in lines if l[:1] in "<[\"{" or re.match(r"^-?\d+$", l)]
    if coverage:
        for m in re.finditer(r"^<(\w+) line \d+, col \d+ to line \d+, col \d+ of module (\w+)>: (\d+):(\d+)",
                             r.out, re.M):
            name = m.group(1)
            d, t = int(m.group(3)), int(m.group(4))
            od, ot = r.coverage.get(name, (0, 0))
            r.coverage[name] = (od + d, ot + t)
    return r


def sany(module):
    p = subprocess.run(["java", "-cp", JAR_CP, "tla2sany.SANY", module + ".tla"], cwd=SPEC,
                       capture_output=True, text=True, timeout=120)
    if p.returncode != 0 or "error" in p.stdout.lower().replace("errors: 0", ""):
        if "Semantic errors" in p.stdout or "Parse Error" in p.stdout or "Fatal" in p.stdout or p.returncode != 0:
            raise MachineryError("SANY failed for %s:\n%s" % (module, p.stdout[-3000:]))
    return True


def require_coverage(res, actions):
    missing = [a for a in actions if res.coverage.get(a, (0, 0))[1] == 0]
    if missing:
        raise MachineryError("vacuity: actions never taken in %s: %s" % (res.cmd, missing))


def eval_cases(module, cases, *, tag=None, timeout=1800, env=None, cfg=None):
    """TLC-as-evaluator: write `cases` (JSON list) to a file, run module (which reads IOEnv.CASES
    and writes IOEnv.OUTF with JsonSerialize), return parsed output list and the TLCResult."""
    os.makedirs(os.path.join(OUT, "eval"), exist_ok=True)
    tag = tag or module
    base = os.path.join(OUT, "eval", "%s-%d" % (tag, os.getpid()))
    cin, cout = base + ".in.json", base + ".out.json"
    with open(cin, "w") as f:
        json.dump(cases, f)
    if os.path.exists(cout):
        os.remove(cout)
    e = {"CASES": cin, "OUTF": cout}
    if env:
        e.update(env)
    # several evaluators run side by side (eval_parallel): cap each JVM, the default (a quarter of the RAM each) invites the OOM killer
    res = run_tlc(module, cfg or "Eval.cfg", workers=1, env=e, timeout=timeout, tag=tag, heap="4g")
    if not os.path.exists(cout):
        raise MachineryError("evaluator %s wrote no output:\n%s" % (module, res.out[-3000:]))
    with open(cout) as f:
        out = json.load(f)
    os.remove(cin)
    os.remove(cout)
    return out, res


def digest(obj):
    return hashlib.sha1(json.dumps(obj, sort_keys=True, default=str).encode()).hexdigest()[:12]


def eval_robust(module, cases, tag, timeout, skipped):
    """eval_cases that survives 32-bit overflow inside TLC: bisect, drop the single overflowing case (result None)"""
    try:
        out, res = eval_cases(module, cases, tag=tag, timeout=timeout)
        return out, [res]
    except MachineryError as e:
        if "Overflow" not in str(e):
            raise
        if len(cases) == 1:
            skipped.append(cases[0])
            return [None], []
        h = len(cases) // 2
        o1, r1 = eval_robust(module, cases[:h], tag, timeout, skipped)
        o2, r2 = eval_robust(module, cases[h:], tag, timeout, skipped)
        return o1 + o2, r1 + r2


def eval_parallel(module, cases, *, tag=None, chunks=12, timeout=1800, skipped=None):
    """eval_cases split over several single-worker TLC processes"""
    import concurrent.futures as cf
    skipped = [] if skipped is None else skipped
    if len(cases) < 200:
        return eval_robust(module, cases, tag or module, timeout, skipped)
    n = min(chunks, max(1, len(cases) // 100))
    size = (len(cases) + n - 1) // n
    parts = [cases[i:i + size] for i in range(0, len(cases), size)]
    with cf.ThreadPoolExecutor(max_workers=len(parts)) as ex:
        futs = [ex.submit(eval_robust, module, part, "%s_%d" % (tag or module, i), timeout, skipped)
                for i, part in enumerate(parts)]
        outs, ress = [], []
        for f in futs:
            o, r = f.result()
            outs.extend(o)
            ress.extend(r)
    return outs, ress


def run_apalache(module, *, init, inv, length, next_=None, cinit=None, timeout=900, tag=None):
    """apalache-mc check on spec/<module>.tla.  Returns "ok" (no error up to `length`), "error" (counterexample found);
    anything else (timeout, typing error, tool missing) raises MachineryError."""
    import subprocess, shutil as _sh
    tag = tag or module
    outdir = os.path.join(OUT, "apalache", "%s-%d" % (tag, os.getpid()))
    _sh.rmtree(outdir, ignore_errors=True)
    os.makedirs(outdir, exist_ok=True)
    cmd = ["apalache-mc", "check", "--init=" + init, "--inv=" + inv, "--length=%d" % length, "--out-dir=" + outdir]
    if next_:
        cmd.append("--next=" + next_)
    if cinit:
        cmd.append("--cinit=" + cinit)
    cmd.append(module + ".tla")
    try:
        p = subprocess.run(cmd, cwd=SPEC, capture_output=True, text=True, timeout=timeout)
    except (subprocess.TimeoutExpired, FileNotFoundError) as ex:
        raise MachineryError("apalache %s: %s" % (tag, ex))
    finally:
        _sh.rmtree(outdir, ignore_errors=True)
    out = p.stdout + p.stderr
    if "EXITCODE: OK" in out and "no error" in out:
        return "ok"
    if "Checker has found an error" in out:
        return "error"
    raise MachineryError("apalache %s gave no verdict:\n%s" % (tag, out[-2000:]))
