"""ModelConfig.tla: model checking plus trace validation of real PrecipitateModel configuration histories; every check that uses
it reports the clauses of its own property only."""
import copy, random
from .tlc import run_tlc, MachineryError
from . import traces as T

CONSTS = ["CONSTANTS", '  VmAs = {"a1", "a2"}', '  VmBs = {"b1", "b2"}', '  Gammas = {"g1", "g2"}',
          '  Sites = {"bulk", "dislocations", "grain boundaries", "grain edges", "grain corners"}', '  Gbes = {"e1", "e2"}',
          '  Grains = {"d1", "d2"}', '  Disls = {"r1", "r2"}', '  X0s = {"x1", "x2"}', '  Bulks = {"auto", "n1", "n2"}',
          '  Shapes = {"sphere", "needle2", "plate3"}', "  NPs = {1, 2}", "  Starts = {}"]
SMALL = ["CONSTANTS", '  VmAs = {"a1", "a2"}', '  VmBs = {"b1", "b2"}', '  Gammas = {"g1", "g2"}',
         '  Sites = {"bulk", "dislocations", "grain boundaries", "grain edges", "grain corners"}', '  Gbes = {"e1", "e2"}',
         '  Grains = {"d1", "d2"}', '  Disls = {"r1"}', '  X0s = {"x1"}', '  Bulks = {"auto", "n1"}', '  Shapes = {"sphere", "needle2"}', "  NPs = {1, 2}",
         "  Starts <- MCStarts"]


def config_part(ctx, prefixes, key):
    from . import cfg_drv as D
    deep = ctx.tier != "quick"
    cfg = T.write_cfg("modelconfig_mc_" + key, ["SPECIFICATION Spec"] + SMALL + ["  MaxOps = %d" % (3 if not deep else 4), '  Mode = "fixed"',
                                         "INVARIANT SetupIsCurrent", "INVARIANT AlwaysAdmissible", "PROPERTY NonInterference", "PROPERTY PhaseIsolation"])
    res = run_tlc("MC_ModelConfig", cfg, deadlock=False, timeout=1500)
    ctx.add_tlc(res, "ModelConfig.tla: all histories of setters and setups")
    if res.violated:
        ctx.tlc_violation(res, "ModelConfig")
    cfgv = T.write_cfg("modelconfig_vac_" + key, ["SPECIFICATION Spec"] + SMALL + ["  MaxOps = 2", '  Mode = "stale-gb"', "INVARIANT SetupIsCurrent"])
    rv = run_tlc("MC_ModelConfig", cfgv, deadlock=False, timeout=600)
    if rv.violated != "SetupIsCurrent":
        raise MachineryError("vacuity: a setup that keeps the old grain boundary energy does not violate SetupIsCurrent in ModelConfig.tla")
    rng = random.Random(ctx.seed + 17)
    hist = D.gen_histories(rng, ctx.tier)
    traces = [D.run_history(i0, ops, how=k, first_setup=fs) for k, (i0, ops, fs) in enumerate(hist)]
    # binding self-test: a hand-written history whose logged site-pool stamp names the OTHER matrix volume (independent of the code under test)
    i0 = dict(vmA="a1", vmB="b1", gamma="g1", site="dislocations", gbe="e1", grain="d1", disl="r1", x0="x1", bulk="auto", shape="sphere",
              vmB2="b1", gamma2="g1", site2="bulk", shape2="sphere", np=1)
    can = [{"e": "init", "inp": i0}, {"e": "set", "field": "gamma", "arg": "g2"},
           {"e": "setup", "obs": {"pool": ["disl", "a2", "r1"], "factors": ["spherical nucleus"], "gibbs": ["g2", "b1", "sphere"], "x": ["x1"],
                                  "pool2": ["absent"], "factors2": ["absent"], "gibbs2": ["absent"]}}]
    reached, r = T.validate("ModelConfig_Trace", CONSTS + ["  MaxOps = 0", '  Mode = "fixed"'], traces + [can], key + "_modelconfig")
    ctx.add_tlc(r, "ModelConfig_Trace over %d configuration histories" % len(traces))
    if r.violated or reached is None:
        raise MachineryError("ModelConfig_Trace validation failed")
    if not any(f[0].startswith("C14:site-pool") for f in reached[-1]["fails"]):
        raise MachineryError("binding self-test failed: corrupted site-pool stamp accepted")
    for (i0, ops, fs), ev, v in zip(hist, traces, reached):
        n = sum(1 for e in ev if e["e"] == "setup")
        ctx.replayed += len(ev) - 1
        lab = ["config", i0["np"], i0["site"], i0["shape"], i0["site2"], fs] + [list(o) for o in ops]
        ctx.case(lab, nontrivial=n > 0, sample={"init": i0, "ops": ops, "events": ev[1:4]} if len(ctx.samples) < 8 else None)
        if v["l"] != len(ev) + 1:
            if ev[-1]["e"] != "exception":
                ctx.violation("config:trace-not-consumed", "configuration history %s not consumed at event %d" % (ops, v["l"]), {"init": i0, "ops": ops, "events": ev})
        for f in v["fails"]:
            if any(f[0].startswith(p) for p in prefixes) or f[0].startswith("exception"):
                ctx.violation("config:%s" % f[0], "configuration history from %s, %s: clause %s fails at event %d" % (i0, ops, f[0], f[1] - 1),
                              {"init": i0, "ops": ops, "first_setup": fs, "events": ev, "fail": f})
