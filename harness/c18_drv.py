"""Drivers for C18: StrengthModel combination rules / formula classes, GrainGrowthModel drag, coupled runs."""
import itertools, math
import numpy as np
from kawin.precipitation.coupling.Strength import StrengthModel
from kawin.precipitation.coupling.GrainGrowth import GrainGrowthModel
from kawin.solver.Solver import SolverType
from . import kwn_drv as K
from .kwn_drv import cmp3

VALS = [("num", -2), ("num", 0), ("num", 1), ("num", 3), ("nan", 0), ("pinf", 0), ("ninf", 0)]


def fl(v):
    k, x = v
    return {"nan": float("nan"), "pinf": float("inf"), "ninf": float("-inf")}.get(k, float(x))


def strength_model(exp1=True):
    sm = StrengthModel()
    sm.setDislocationParameters(G=8e10, b=2.5e-10, nu=1 / 3)
    sm.setTaylorFactor(2)
    if exp1:
        sm.setStrengthSuperpositionExponent(1, 1, 1, 1)
    return sm


def gen_combine(rng, tier):
    cases = []
    pairs = list(itertools.product(VALS, repeat=2))
    n = 400 if tier == "quick" else 4000
    for _ in range(n):
        nb = rng.choice([1, 2, 3])
        weak = [rng.choice(VALS) for _ in range(nb)]
        strong = [rng.choice(VALS) for _ in range(nb)]
        cases.append(dict(kind="combine", weak=weak, strong=strong, orowan=rng.choice(VALS), M=2, sigma0=rng.choice([0, 1, 2]), ss=rng.choice([0, 1, 2])))
    return cases


def run_combine(c):
    """mirrors the call sequence of StrengthModel.precStrength for one phase, with the branch values injected"""
    sm = strength_model()
    sm.sigma0 = float(c["sigma0"])
    weak = np.array([[fl(v)] for v in c["weak"]])
    strong = np.array([[fl(v)] for v in c["strong"]])
    # clipping exactly as getStrengthContributions does it, through the public method, by overriding the branch functions
    names = ["coherency", "modulus", "APB"][:len(c["weak"])]
    funcs_w = [lambda r, Ls, r0, phase="all", v=fl(v): np.array([v]) for v in c["weak"]]
    funcs_s = [lambda r, Ls, r0, phase="all", v=fl(v): np.array([v]) for v in c["strong"]]
    effects = [sm.coherencyEffect, sm.modulusEffect, sm.APBEffect]
    for e in effects[:len(c["weak"])]:
        e["all"] = True
    sm.coherencyWeak, sm.modulusWeak, sm.APBweak = (funcs_w + [None, None, None])[:3]
    sm.coherencyStrong, sm.modulusStrong, sm.APBstrong = (funcs_s + [None, None, None])[:3]
    sm.orowan = lambda r, Ls, v=fl(c["orowan"]): np.array([v])
    with np.errstate(all="ignore"):
        w, s, o, _ = sm.getStrengthContributions(np.array([1e-9]), np.array([1e-8]))
        prec = sm.combineStrengthContributions(w, s, o)
        total = sm.totalStrength(np.array([float(c["ss"])]), np.array(prec, dtype=float))
    return float(np.atleast_1d(prec)[0]), float(np.atleast_1d(total)[0])


def superposition_relations(rng, tier):
    """total strength with superposition exponents other than 1 (the exact part fixes them at 1): the documented rule
    sigma^n = sigma0^n + ss^n + prec^n with n = the TOTAL exponent, whatever the single-phase / multi-phase exponents are;
    total >= each part, non-decreasing in each part, a single non-zero part is returned unchanged, n = 1 gives the plain sum.
    Events for Relations.tla."""
    from .kwn_drv import cmp3
    ev = [{"e": "init"}]
    sets = [(1.8, 1.8, 1.4, 1.8), (1.8, 1.8, 1.4, 1.0), (1.8, 1.8, 1.4, 2.0), (1.0, 1.0, 1.0, 1.8), (2.0, 1.5, 1.2, 1.5), (1.3, 2.0, 1.8, 1.0)]
    try:
        for (n1, n2, n3, nt) in sets:
            sm = strength_model(exp1=False)
            sm.setStrengthSuperpositionExponent(n1, n2, n3, nt)
            tag = "exponents single=%g same=%g mixed=%g total=%g" % (n1, n2, n3, nt)
            for k in range(6 if tier == "quick" else 40):
                s0, ss, pr = [rng.choice([0.0, 1e6, 2e7, 5e7, 1e8]) * rng.choice([1.0, 1.0, 0.37]) for _ in range(3)]
                sm.sigma0 = s0
                tot = float(np.atleast_1d(sm.totalStrength(np.array([ss]), np.array([pr])))[0])
                name = "%s case %d" % (tag, k)
                want = (s0 ** nt + ss ** nt + pr ** nt) ** (1.0 / nt)
                ev.append({"e": "rel", "group": "C18:total=documented-superposition(total exponent)", "name": name, "c": cmp3(tot, want, rtol=1e-10, atol=1e-300), "want": "eq"})
                for part, v in (("base", s0), ("solid-solution", ss), ("precipitate", pr)):
                    ev.append({"e": "rel", "group": "C18:total>=each-part", "name": "%s %s" % (name, part), "c": cmp3(tot, v, rtol=1e-12), "want": "ge"})
                tot2 = float(np.atleast_1d(sm.totalStrength(np.array([ss]), np.array([pr * 1.5 + 1e6])))[0])
                ev.append({"e": "rel", "group": "C18:total-non-decreasing-in-precipitate-strength", "name": name, "c": cmp3(tot2, tot, rtol=1e-12), "want": "ge"})
                tot3 = float(np.atleast_1d(sm.totalStrength(np.array([ss * 1.5 + 1e6]), np.array([pr])))[0])
                ev.append({"e": "rel", "group": "C18:total-non-decreasing-in-solid-solution-strength", "name": name, "c": cmp3(tot3, tot, rtol=1e-12), "want": "ge"})
            sm.sigma0 = 0.0
            one = float(np.atleast_1d(sm.totalStrength(np.array([0.0]), np.array([1e7])))[0])
            ev.append({"e": "rel", "group": "C18:single-part-returned-unchanged", "name": tag, "c": cmp3(one, 1e7, rtol=1e-10), "want": "eq"})
    except Exception as ex:  # noqa
        ev.append({"e": "exception", "msg": "%s: %s" % (type(ex).__name__, str(ex)[:200])})
    return ev


def reduction_relations():
    """the mixed-dislocation formulas at 90 / 0 degrees against the edge / screw formulas (both J models; the mixed formulas carry
    constants rounded to 3-5 digits: rtol 2e-3).  Events for Relations.tla."""
    from .kwn_drv import cmp3
    ev = [{"e": "init"}]
    pairs = [("coherencyWeak", "coherencyWeakEdge", "coherencyWeakScrew"), ("coherencyStrong", "coherencyStrongEdge", "coherencyStrongScrew"),
             ("modulusWeak", "modulusWeakEdge", "modulusWeakScrew"), ("APBweak", "APBweakEdge", "APBweakScrew"), ("APBstrong", "APBstrongEdge", "APBstrongScrew"),
             ("SFEweak", "SFEweakNarrowEdge", "SFEweakNarrowScrew"), ("SFEstrong", "SFEstrongNarrowEdge", "SFEstrongNarrowScrew"),
             ("interfacialWeak", "interfacialWeakEdge", "interfacialWeakScrew")]
    try:
        for jmodel in ("simple", "complex"):
            for theta, col in ((90, 1), (0, 2)):
                sm = StrengthModel()
                sm.setDislocationParameters(G=8e10, b=2.5e-10, nu=1 / 3, theta=theta)
                sm.setCoherencyParameters(0.01); sm.setModulusParameters(Gp=7e10); sm.setAPBParameters(0.1); sm.setSFEParameters(0.1, 0.05); sm.setInterfacialParameters(0.2)
                sm.setJfactor(jmodel)
                for r, Ls in ((2e-9, 3e-8), (8e-9, 1e-7), (3e-8, 2e-7)):
                    r_, L_, r0 = np.array([r]), np.array([Ls]), np.array([r])
                    for p in pairs:
                        with np.errstate(all="ignore"):
                            mixed = float(np.atleast_1d(getattr(sm, p[0])(r_, L_, r0))[0])
                            pure = float(np.atleast_1d(getattr(sm, p[col])(r_, L_, r0))[0])
                        if not (math.isfinite(mixed) and math.isfinite(pure)):
                            continue
                        ev.append({"e": "rel", "group": "C18:mixed-formula-reduces-to-%s(%s, J %s)" % ("edge" if theta == 90 else "screw", p[0], jmodel),
                                   "name": "r=%g Ls=%g" % (r, Ls), "c": cmp3(mixed, pure, rtol=2e-3), "want": "eq"})
    except Exception as ex:  # noqa
        ev.append({"e": "exception", "msg": "%s: %s" % (type(ex).__name__, str(ex)[:200])})
    return ev


def to_json(c):
    j = dict(c)
    for k in ("weak", "strong"):
        j[k] = [{"k": v[0], "v": v[1]} for v in c[k]]
    j["orowan"] = {"k": c["orowan"][0], "v": c["orowan"][1]}
    return j


def formula_classes():
    """sign / finiteness classes of the real formulas on a lattice of radii and spacings incl. 0 and sub-core radii"""
    sm = StrengthModel()
    sm.setDislocationParameters(G=8e10, b=2.5e-10, nu=1 / 3)
    sm.setCoherencyParameters(0.01)
    sm.setModulusParameters(Gp=7e10)
    sm.setAPBParameters(0.1)
    sm.setSFEParameters(0.1, 0.05)
    sm.setInterfacialParameters(0.2)
    out = []
    rs = [0.0, 1e-11, 1e-10, 1.2e-10, 2.5e-10, 1e-9, 1e-8, 1e-6]
    Ls = [0.0, 1e-10, 1e-9, 1e-7, 1e-5]
    for theta in (0, 45, 90):
        sm.setDislocationParameters(G=8e10, b=2.5e-10, nu=1 / 3, theta=theta)
        for jmodel in ("simple", "complex"):
            sm.setJfactor(jmodel)
            rr, ll = np.meshgrid(rs, Ls)
            rr, ll = rr.ravel(), ll.ravel()
            with np.errstate(all="ignore"):
                w, s, o, names = sm.getStrengthContributions(rr.copy(), ll.copy())
                prec = sm.combineStrengthContributions(w, s, o.copy())
                tot = sm.totalStrength(np.zeros(len(rr)), np.array(prec, dtype=float))

            def cls(v):
                if not math.isfinite(v): return "nonfinite"
                return "neg" if v < 0 else ("zero" if v == 0 else "pos")
            for i in range(len(rr)):
                out.append({"r": float(rr[i]), "Ls": float(ll[i]), "theta": theta, "J": jmodel,
                            "weak": [cls(float(x)) for x in w[:, i]], "strong": [cls(float(x)) for x in s[:, i]], "orowan": cls(float(o[i])),
                            "prec": cls(float(prec[i])), "total": cls(float(tot[i])), "noprec": bool(rr[i] == 0 and ll[i] == 0)})
    return out


def run_drag(gs, z, alpha=1.0, M=1.0, gbe=1.0):
    gg = GrainGrowthModel()
    gg.setGrainBoundaryMobility(float(M)); gg.setGrainBoundaryEnergy(float(gbe)); gg.setAlpha(float(alpha))
    g = np.array([float(v) for v in gs])
    keep = g.copy()
    out = gg.constrainedGrowth(g, float(z))
    return [float(v) for v in out], bool(np.array_equal(g, keep))


class Tail:
    """registered last: sees the coupled models after they were updated in this host step"""
    def __init__(self, sm, gg):
        self.sm, self.gg, self.rows = sm, gg, []

    def updateCoupledModel(self, model):
        n = int(model.pData.n)
        pbm = self.gg.pbm
        g = self.gg.constrainedGrowth(self.gg.grainGrowth(pbm.PSD), self.gg._z)
        self.pinned = getattr(self, "pinned", 0) + (0 if np.any(g) else 1)
        self.rows.append({"n": n, "strength_len": [len(self.sm.rss), len(self.sm.ls), len(self.sm.solidStrength)],
                          "clock": cmp3(float(self.gg.time[-1]), float(model.pData.time[n]), rtol=1e-9),
                          "m3": cmp3(float(pbm.ThirdMoment()), 1.0, rtol=1e-9),
                          "gg_finite": bool(np.all(np.isfinite(pbm.PSD)) and np.all(pbm.PSD >= 0)),
                          "avgR": float(self.gg.avgR[-1]), "z": float(self.gg._z), "gg_rows": len(self.gg.time)})


def coupled_run(cfg):
    m, th, obs = K.build(cfg)
    sm = strength_model(exp1=False)
    sm.setCoherencyParameters(0.01)
    sm.setInterfacialParameters(0.2)
    sm.setSolidSolutionStrength({"B": 1e8}, 1)
    lo, hi, mean = cfg.get("gg_grid", (1e-7, 1e-5, 2e-6))
    gg = GrainGrowthModel(lo, hi, solverType=SolverType.EXPLICITEULER if cfg.get("gg_iter", "euler") == "euler" else SolverType.RK4)
    rng = np.random.RandomState(1)
    gg.LoadDistribution(rng.lognormal(mean=np.log(mean), sigma=0.3, size=4000))
    if cfg.get("no_pinning"):
        gg.setZenerParameters(1, 1e30)
    m.addCouplingModel(sm)
    m.addCouplingModel(gg)
    tail = Tail(sm, gg)
    m.addCouplingModel(tail)
    it = SolverType.RK4 if cfg.get("iter", "euler") == "rk4" else SolverType.EXPLICITEULER
    err = None
    try:
        for (span, maxfrac) in cfg["calls"]:
            m.solve(span, solverType=it, maxDtFrac=maxfrac)
    except K.StepCap:
        pass
    except Exception as ex:  # noqa
        err = "%s: %s" % (type(ex).__name__, str(ex)[:200])
    ev = [{"e": "init", "allowed": []}]
    prevR = None
    for r in tail.rows:
        n = r["n"]
        ev.append({"e": "cmp", "name": "strength-history-length@%d" % n, "c": "eq" if all(v == n + 1 for v in r["strength_len"]) else "gt"})
        ev.append({"e": "cmp", "name": "grain-clock=host-clock@%d" % n, "c": r["clock"]})
        ev.append({"e": "cmp", "name": "grain-volume=1@%d" % n, "c": r["m3"]})
        ev.append({"e": "cmp", "name": "grain-psd-finite-nonneg@%d" % n, "c": "eq" if r["gg_finite"] else "nan"})
        if cfg.get("no_pinning") and prevR is not None:
            ev.append({"e": "cmp", "name": "mean-grain-size-nondecreasing@%d" % n, "c": "eq" if r["avgR"] >= prevR * (1 - 1e-12) else "lt"})
        prevR = r["avgR"]
    # strength outputs over the whole history
    if not err and tail.rows:
        with np.errstate(all="ignore"):
            ps = sm.precStrength(m)
            tot = sm.totalStrength(sm.solidStrength, ps)
        ev.append({"e": "cmp", "name": "precStrength-finite-nonneg", "c": "eq" if np.all(np.isfinite(ps)) and np.all(ps >= 0) else "nan"})
        ev.append({"e": "cmp", "name": "totalStrength-finite->=parts", "c": "eq" if np.all(np.isfinite(tot)) and np.all(tot >= ps * (1 - 1e-12)) and np.all(tot >= sm.solidStrength * (1 - 1e-12)) else "lt"})
        ev.append({"e": "cmp", "name": "precStrength-zero-before-precipitation", "c": "eq" if ps[0] == 0 else "gt"})
    if err:
        ev.append({"e": "exception", "msg": err})
    return ev, {"steps": len(tail.rows), "error": err, "fully_pinned_steps": getattr(tail, "pinned", 0)}
