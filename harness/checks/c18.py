"""C18 -- coupled strength and grain-growth models stay physical and aligned."""
import os, copy
import concurrent.futures as cf
from ..core import main, close
from ..tlc import run_tlc, eval_parallel, MachineryError
from .. import traces as T

OROWAN_RULE = "nonneg"      # "asbuilt" before the fix (known_findings.json)


def _coupled(cfg):
    from .. import c18_drv as D
    return D.coupled_run(cfg)


def run(ctx, replay=None):
    from .. import c18_drv as D
    ctx.rule = ("(A) MC_Strength.tla: for all branch-value vectors over {-2,0,1,3,NaN,+inf,-inf} (2 mechanisms) TLC checks precipitate strength >= 0, = M*min of the three "
                "branches, total >= parts; and for all integer growth values x drag levels that Zener drag never reverses or accelerates a boundary and freezes it "
                "when strong. (B) the real StrengthModel is driven with the same branch values (public getStrengthContributions/combine/total with injected branch "
                "functions) and GrainGrowthModel.constrainedGrowth with integer arrays; TLC (Strength_Eval.tla) predicts the exact results. (C) sign/finiteness "
                "classes of the real formulas on a radius x spacing lattice incl. 0 and sub-core radii, 3 dislocation characters, both J models. (D) coupled "
                "PrecipitateModel + StrengthModel + GrainGrowthModel runs (1-3 solve calls, both iterators): per host step strength history length = n+1, grain "
                "clock = host clock, grain volume = 1, PSD finite; mean grain size non-decreasing without pinning; judged by Equiv.tla.")
    ctx.assumptions = ["superposition exponent 1 in the exact part; other exponents and the mixed -> edge / screw reductions enter as comparison classes (Relations.tla; reductions at rtol 2e-3, the mixed formulas carry rounded constants)"]
    # (A)
    cfg = T.write_cfg("strength_mc", ["INIT Init", "NEXT Next", "CONSTANTS", '  OrowanRule = "%s"' % OROWAN_RULE, "  NB = 2",
                                      "INVARIANT InvNonNegative", "INVARIANT InvMinRule", "INVARIANT InvTotal", "INVARIANT InvDrag"])
    res = run_tlc("MC_Strength", cfg, deadlock=False, timeout=1500, tag="strength_mc")
    ctx.add_tlc(res, "MC_Strength (Orowan rule %s)" % OROWAN_RULE)
    if res.violated:
        ctx.violation("strength-mc:%s" % res.violated, "Strength.tla with the %s Orowan clipping violates %s" % (OROWAN_RULE, res.violated), {"trace": res.trace_text[:2500]})
    # (B)
    cases = D.gen_combine(ctx.rng, ctx.tier)
    obs = [D.run_combine(c) for c in cases]
    js = [D.to_json(c) for c in cases]
    drag = []
    for _ in range(100 if ctx.tier == "quick" else 1000):
        g = [ctx.rng.randint(-4, 4) for _ in range(ctx.rng.randint(1, 6))]
        z = ctx.rng.randint(0, 5)
        # fitting factor, mobility and boundary energy (the prefactor of the curvature-driven rate) scale the drag term alike
        alpha, M, gbe = ctx.rng.choice([1, 1, 2, 3]), ctx.rng.choice([1, 2]), ctx.rng.choice([1, 1, 2])
        g = [alpha * M * gbe * v for v in g] if ctx.rng.random() < 0.5 else g
        drag.append((g, z, D.run_drag(g, z, alpha, M, gbe)))
        js.append({"kind": "drag", "g": g, "z": z, "k": alpha * M * gbe})
    os.environ["OROWANRULE"] = OROWAN_RULE
    exp, ress = eval_parallel("Strength_Eval", js, tag="strengtheval")
    for r in ress:
        ctx.add_tlc(r, "Strength_Eval")
    for c, j, (prec, tot), e in zip(cases, js, obs, exp):
        ctx.replayed += 1
        ctx.case(j, nontrivial=True, sample=j if len(ctx.samples) < 2 else None)
        bad = []
        if not close(prec, e["prec"], atol=1e-12): bad.append("precStrength")
        if not close(tot, e["total"], atol=1e-12): bad.append("totalStrength")
        if e["prec"] >= 0 and not (prec >= 0): bad.append("negative")
        if bad:
            ctx.violation("strength-combine:" + ",".join(bad), "combine(%s) -> prec=%r total=%r, specification %s" % (j, prec, tot, e), {"case": j, "observed": [prec, tot], "expected": e})
    for (g, z, (cg, intact)), e in zip(drag, exp[len(cases):]):
        ctx.replayed += 1
        ctx.case({"g": g, "z": z}, nontrivial=any(g))
        if [float(v) for v in e["cg"]] != cg or not intact:
            ctx.violation("graingrowth:constrainedGrowth", "constrainedGrowth(%s, %s) = %s, specification %s (argument intact: %s)" % (g, z, cg, e["cg"], intact), {"g": g, "z": z})
    # (C)
    fc = D.formula_classes()
    for row in fc:
        ctx.case(row, nontrivial=True)
        badc = [k for k in ("prec", "total", "orowan") if row[k] in ("neg", "nonfinite")] + \
               ["weak" for v in row["weak"] if v in ("neg", "nonfinite")] + ["strong" for v in row["strong"] if v in ("neg", "nonfinite")]
        if row["noprec"] and row["prec"] != "zero":
            badc.append("prec-nonzero-without-precipitates")
        if badc:
            sub = "subcore" if 0 < 2 * row["r"] < 2.5e-10 else "other"
            ctx.violation("strength-formula:%s:%s" % (",".join(sorted(set(badc))), sub),
                          "strength formulas at r=%g Ls=%g theta=%s J=%s give classes %s" % (row["r"], row["Ls"], row["theta"], row["J"], {k: row[k] for k in ("orowan", "prec", "total")}), {"row": row})
    # (C') superposition exponents other than 1
    sev = D.superposition_relations(ctx.rng, ctx.tier)
    red = D.reduction_relations()            # mixed-dislocation formulas at 90 / 0 degrees against the edge / screw formulas, both J models
    if len(red) < 50 and red[-1]["e"] != "exception":
        raise MachineryError("vacuity: only %d reduction relations" % len(red))
    sev = sev + red[1:]
    from .. import gg_drv as G_
    sev = sev + G_.zener_relations()[1:]          # Zener drag handed to the grain growth model = sum over the host's phases
    reached_s, rs = T.validate("Relations", [], [sev], "c18_superposition")
    ctx.add_tlc(rs, "Relations over the superposition cases")
    if rs.violated or reached_s is None:
        raise MachineryError("Relations failed (superposition)")
    ctx.replayed += len(sev) - 1
    ctx.case("superposition-exponents", nontrivial=len(sev) > 50, sample={"events": sev[1:3]})
    if reached_s[0]["l"] != len(sev) + 1:
        ctx.violation("strength-superposition:trace-not-consumed", "superposition relations not consumed", {})
    for f in reached_s[0]["fails"]:
        ctx.violation("strength-superposition:%s" % f[0], "total strength: %s violated at %s (observed %s, stated %s)" % (f[0], f[1], f[2], f[3]), {"fail": f})
    # (D)
    base = dict(phases=[dict(name="beta", gamma=0.05)], D=1e-16, cap=200)
    cfgs = [dict(base, tag="coupled-euler-2calls", calls=[(20.0, 0.02), (30.0, 0.02)], iter="euler"),
            dict(base, tag="coupled-rk4-3calls", calls=[(10.0, 0.02), (10.0, 0.05), (10.0, 0.05)], iter="rk4", gg_iter="rk4"),
            dict(base, tag="coupled-nopinning", calls=[(30.0, 0.02)], iter="euler", no_pinning=True),
            # dense nanometre precipitates + a grain grid starting near the grain size: the drag freezes every boundary for many host steps
            dict(base, tag="coupled-fully-pinned", D=1e-15, calls=[(0.6, 0.02), (0.6, 0.02)], iter="euler", cap=900, gg_grid=(0.3e-6, 5e-6, 1e-6))]
    with cf.ProcessPoolExecutor(max_workers=4) as ex:
        results = list(ex.map(_coupled, cfgs))
    traces = [r[0] for r in results]
    reached, res = T.validate("Equiv", [], traces, "c18_equiv")
    ctx.add_tlc(res, "Equiv over %d coupled runs" % len(traces))
    if res.violated or reached is None:
        raise MachineryError("Equiv failed on coupled runs")
    for cfg_, (ev, info), v in zip(cfgs, results, reached):
        ctx.replayed += info["steps"]
        ctx.case(cfg_["tag"], nontrivial=info["steps"] > 5, sample={"config": cfg_, "info": info})
        if v["l"] != len(ev) + 1 or v["fails"]:
            names = sorted(set(f[0].split("@")[0] for f in v["fails"]))
            ctx.violation("coupled:%s" % ",".join(names), "coupled run %s: %s %s" % (cfg_["tag"], v["fails"][:4], info.get("error") or ""), {"config": cfg_, "fails": v["fails"], "info": info})
        if cfg_["tag"] == "coupled-fully-pinned" and info["fully_pinned_steps"] < 10:
            raise MachineryError("vacuity: the fully pinned scenario pinned only %d steps" % info["fully_pinned_steps"])
        if info["steps"] < 5:
            raise MachineryError("coupled run %s made only %d steps (%s)" % (cfg_["tag"], info["steps"], info.get("error")))

    grainlife_part(ctx)


def grainlife_part(ctx):
    """GrainLife.tla: life cycle of a GrainGrowthModel (load / drag / solve / reset), model-checked and trace-validated on real objects"""
    from .. import gg_drv as G
    import copy
    consts = ["CONSTANTS", '  Dists = {"d1", "d2"}', "  Spans = {1, 2}", "  Drags = {0, 1}"]
    cfg = T.write_cfg("grainlife_mc", ["SPECIFICATION Spec"] + consts + ["  MaxOps = %d" % (5 if ctx.tier == "quick" else 7), '  Mode = "fixed"',
                                       "INVARIANT TypeOK", "PROPERTY ClockIsSumSinceReset", "PROPERTY ResetForgets"])
    res = run_tlc("GrainLife", cfg, deadlock=False, timeout=900)
    ctx.add_tlc(res, "GrainLife.tla: all histories of loads, drags, solves and resets")
    if res.violated:
        ctx.tlc_violation(res, "GrainLife")
    cfgv = T.write_cfg("grainlife_vac", ["SPECIFICATION Spec"] + consts + ["  MaxOps = 4", '  Mode = "reset-keeps-drag"', "PROPERTY ResetForgets"])
    rv = run_tlc("GrainLife", cfgv, deadlock=False, timeout=600)
    if rv.violated != "ResetForgets":
        raise MachineryError("vacuity: a reset that keeps the drag does not violate ResetForgets in GrainLife.tla")
    a, b = G.replay("d1", [(2, 0)]), G.replay("d1", [(2, 1)])
    if a[0].shape == b[0].shape and bool((abs(a[0] - b[0]) <= 1e-6 * abs(a[0]).max()).all()):
        raise MachineryError("vacuity: the drag level of the driver does not change the evolved distribution")
    hist = G.gen_histories(ctx.rng, ctx.tier)
    traces = [G.run_history(h) for h in hist]
    can = copy.deepcopy(next(t for t in traces if any(e.get("op") == "reset" for e in t[1:])))
    for e in can[1:]:
        if e.get("op") == "reset":
            e["obs"]["clock"] = 3
            break
    reached, r = T.validate("GrainLife_Trace", consts + ["  MaxOps = 0", '  Mode = "fixed"'], traces + [can], "c18_grainlife")
    ctx.add_tlc(r, "GrainLife_Trace over %d histories" % len(traces))
    if r.violated or reached is None:
        raise MachineryError("GrainLife_Trace validation failed")
    if not any(f[0].startswith("C18:grain-clock") for f in reached[-1]["fails"]):
        raise MachineryError("binding self-test failed: corrupted clock after reset accepted")
    for h, ev, v in zip(hist, traces, reached):
        ctx.replayed += len(ev) - 1
        ctx.case(["grainlife"] + [list(o) for o in h], nontrivial=any(e.get("op") == "solve" for e in ev[1:]), sample={"history": h, "events": ev[1:3]} if len(ctx.samples) < 8 else None)
        if v["l"] != len(ev) + 1 and ev[-1]["e"] != "exception":
            ctx.violation("grainlife:trace-not-consumed", "grain growth history %s not consumed at event %d" % (h, v["l"]), {"history": h, "events": ev})
        for f in v["fails"]:
            ctx.violation("grainlife:%s" % f[0], "grain growth history %s: clause %s fails at call %d" % (h, f[0], f[1] - 1), {"history": h, "events": ev, "fail": f})


if __name__ == "__main__":
    main(run, "C18", "model_checking")
