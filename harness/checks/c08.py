"""C08 -- size-class grid operations stay consistent and conserve particle volume."""
from fractions import Fraction as Fr
from ..core import main, close
from ..tlc import run_tlc, eval_parallel, MachineryError
from .. import traces as T

PROPS = ["INVARIANT InvGridConsistent", "INVARIANT NoError", "INVARIANT InvRecording", "PROPERTY PropExtend", "PROPERTY PropRemesh",
         "PROPERTY PropAdaptive", "PROPERTY PropReset", "PROPERTY PropSetToLast"]
SPIKE_KEY = "pbm:remesh-loses-spike"


def mc(ctx, n, configs, allow, props, tag):
    cfg = T.write_cfg(tag, ["SPECIFICATION Spec", "CONSTANTS", "  MaxLen = %d" % n, "  Configs <- %s" % configs,
                            "  AllowSpikeLoss = %s" % allow] + props)
    return run_tlc("PBM_MC", cfg, deadlock=False, timeout=3000, tag=tag)


def vec_ok(obs, exp, atol=1e-12):
    return len(obs) == len(exp) and all(close(o, Fr(e[0], e[1]), atol=atol) for o, e in zip(obs, exp))


def compare(o, e, op):
    bad = []
    if "exception" in o:
        if e["err"] == "" or e["err"] != o["exception"]:
            bad.append("exception:%s(expected err=%r)" % (o["exception"], e["err"]))
        return bad
    if e["err"] != "":
        return ["expected-exception:" + e["err"]]
    if o["bins"] != e["bins"] or o["psdlen"] != e["bins"]: bad.append("bins")
    if not close(o["min"], Fr(*e["min"]), atol=1e-12): bad.append("min")
    if not close(o["max"], Fr(*e["max"]), atol=1e-12): bad.append("max")
    if not vec_ok(o["bounds"], e["bounds"]): bad.append("bounds")
    if not vec_ok(o["size"], e["size"]): bad.append("size")
    if not vec_ok(o["psd"], e["psd"]): bad.append("psd")
    if not e["consistent"]: bad.append("spec:inconsistent")
    # recorded distributions: rows are zero padded in the code; every recorded row must equal what was recorded
    if bool(o["hasRec"]) != bool(e["hasRec"]):
        bad.append("recording-present")
    elif e["hasRec"]:
        if len(o["rec"]) != len(e["rec"]):
            bad.append("recorded-rows")
        else:
            for ro, re_ in zip(o["rec"], e["rec"]):
                nb = len(re_["bounds"])
                if not close(ro["t"], Fr(*re_["t"]), atol=1e-15): bad.append("recorded-time"); break
                if not vec_ok(ro["bounds"][:nb], re_["bounds"]) or any(v != 0 for v in ro["bounds"][nb:]): bad.append("recorded-bounds"); break
                if not vec_ok(ro["psd"][:max(nb - 1, 0)], re_["psd"]) or any(v != 0 for v in ro["psd"][max(nb - 1, 0):]): bad.append("recorded-psd"); break
    if op["op"] == "moments":
        m, em = o["moments"], e["moments"]
        for k in ("m0", "m1", "m2", "m3", "w1"):
            if not close(m[k], Fr(*em[k]), atol=1e-12): bad.append("moments." + k)
        for k in ("cum3", "cumw2"):
            if not vec_ok(m[k], em[k]): bad.append("moments." + k)
        if not o["pure"]: bad.append("moments.mutated-state")
    return bad


def run(ctx, replay=None):
    from .. import pbm_drv as D
    ctx.rule = ("(A) TLC explores every history of grid operations (reset, add, change, adjust, update, backup, revert, load, "
                "loadfn) up to length 3 (quick) / 4 (thorough) on PBM.tla from several small grids, adaptive on/off, checking "
                "GridConsistent and the per-operation action properties. (B) the same alphabet is executed on the real "
                "PopulationBalanceModel (all histories up to length 2/3 + seeded length 4-6) and TLC (PBM_Hist.tla) predicts "
                "every public attribute after every operation; equality within rtol 1e-9. Distinct = (config, history); "
                "non-trivial = at least one operation changed the distribution or the grid.")
    ctx.assumptions = ["exact re-meshing overflows 32-bit rationals on anything but tiny grids: grids start at 0, <= 6 classes, "
                       "populations <= 7, and a distribution is re-meshed at most once before being replaced",
                       "revert only after a createBackup since the last reset/re-mesh (precondition of the property)"]
    if replay:
        d = replay["detail"]
        hist = [(tuple(d["cfg"]), d["ops_py"])]
        for op in hist[0][1]:
            for k in ("a", "b", "c"):
                if k in op: op[k] = Fr(op[k])
            if "data" in op: op["data"] = [Fr(v) for v in op["data"]]
    else:
        n = 3 if ctx.tier == "quick" else 4
        configs = "ConfigsQuick" if ctx.tier == "quick" else "ConfigsFull"
        res = mc(ctx, n, configs, "TRUE", PROPS, "pbm_mc")
        ctx.add_tlc(res, "PBM_MC histories <= %d, %s" % (n, configs))
        if res.violated:
            ctx.tlc_violation(res, "PBM_MC")
        # the named deviation RemeshLosesSpike: is it reachable?  (known finding, keyed)
        r2 = mc(ctx, 3, "ConfigsQuick", "FALSE", ["PROPERTY PropRemesh"], "pbm_mc_spike")
        ctx.add_tlc(r2, "PBM_MC with the RemeshLosesSpike deviation disallowed")
        if r2.violated:
            ctx.violation(SPIKE_KEY, "re-meshing to a coarser grid that covers the populated range loses the whole third moment "
                          "when every new class centre misses the populated classes", {"trace": r2.trace_text[-3000:]})
        for vac in ("NeverCoarsens", "NeverRefines", "NeverExtends"):
            rv = mc(ctx, 3, "ConfigsQuick", "TRUE", ["PROPERTY " + vac], "pbm_mc_vac")
            if rv.violated != vac:
                raise MachineryError("vacuity: %s holds, the adjust branch is never taken in the model" % vac)
        hist = D.gen_histories(ctx.rng, ctx.tier)
    cases, obs = [], []
    for cfg, ops in hist:
        js, out = D.run_history(cfg, ops)
        cases.append({"cfg": {"cmin": D.rat(cfg[0]), "cmax": D.rat(cfg[1]), "bins": cfg[2], "minBins": cfg[3],
                              "maxBins": cfg[4], "adaptive": cfg[5]}, "ops": js})
        obs.append(out)
    skipped = []
    exp, ress = eval_parallel("PBM_Hist", cases, tag="pbmhist", skipped=skipped)
    for r in ress:
        ctx.add_tlc(r, "PBM_Hist")
    ctx.extra["skipped_overflow_cases"] = len(skipped)
    if len(skipped) > max(10, len(cases) // 10):
        raise MachineryError("too many histories overflow TLC's 32-bit integers: %d of %d" % (len(skipped), len(cases)))
    for (cfg, ops), c, o, e in zip(hist, cases, obs, exp):
        if e is None:
            continue
        nontriv = any(st.get("psd") != o["init"]["psd"] or st.get("bounds") != o["init"]["bounds"] for st in o["steps"])
        ctx.replayed += len(o["steps"])
        ctx.case(c, nontrivial=nontriv, sample={"cfg": cfg, "ops": c["ops"]} if len(ctx.samples) < 3 else None)
        for i, st in enumerate(o["steps"]):
            if i >= len(e["steps"]):
                break
            bad = compare(st, e["steps"][i], ops[i])
            # third moment across a covering re-mesh, judged on the code's own numbers against the spec's clause
            if bad:
                opn = ops[i]["op"]
                pyops = [{k: (str(v) if isinstance(v, Fr) else ([str(x) for x in v] if isinstance(v, list) else v)) for k, v in op.items()} for op in ops]
                ctx.violation("pbm-hist:%s:%s" % (opn, ",".join(bad)),
                              "PopulationBalanceModel disagrees with PBM.tla after op %d (%s): %s" % (i + 1, opn, bad),
                              {"cfg": list(cfg), "ops_py": pyops, "ops": c["ops"], "step": i + 1, "observed": st, "expected": e["steps"][i]})
                break


if __name__ == "__main__":
    main(run, "C08", "model_checking")
