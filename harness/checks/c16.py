"""C16 -- Eshelby strain energy: order independence of the inputs (decided with Elastic.tla), stated identities (observed).
Partial claim, see DESIGN 3/C16."""
import copy
from ..core import main
from ..tlc import run_tlc, MachineryError
from .. import traces as T

MODE = "fixed"        # "asbuilt" = rotation setters do not refresh the rotated tensors (before the repair, known_findings.json)
CONSTS = ['  Stiff = {"C1", "C2"}', '  Rots = {"I", "R1", "R2"}', '  Eigs = {"e1", "e2", "e3"}', '  Stresses = {"s1"}',
          '  Shapes = {"sphere", "cube", "ellipsoid", "constant"}']


def run(ctx, replay=None):
    from .. import c16_drv as D
    ctx.rule = ("(order clause) Elastic.tla models the StrainEnergy object: user inputs (matrix/precipitate stiffness, two rotations, eigenstrain, applied stress, "
                "shape) and the derived data compute() works on (rotated tensors as stamps <<stiffness, rotation>>, description in force, stress rotation count). "
                "TLC explores every history of <= 5 setter/update/compute calls: DerivedCurrent, OrderIndependent, ShapeRule (and shows the as-built rotation "
                "setters violate DerivedCurrent). Every history of <= 2 (quick) / 3 (thorough) calls from a 19-operation alphabet plus seeded longer ones is executed "
                "on a real StrainEnergy object (6x6 and constant setters alternating); after every call the harness identifies which stiffness rotated by which "
                "rotation the object holds and Elastic_Trace.tla requires the logged data to equal the specification's next state; every history ends with compute, "
                "whose energy must equal that of a fresh object built in canonical order. (identities) non-negativity, cube/square scaling, 6x6 = 4th rank, both "
                "inversion routines, reduction to the homogeneous inclusion, isotropic-sphere closed form (Eshelby and spherical approximation), Eshelby tensor "
                "components, orientation independence, quadrature exactness up to the stated order, rank and modulus round trips: three-way comparisons judged by "
                "Relations.tla, for the default Lebedev rule and for a symmetric full-sphere midpoint grid.")
    ctx.assumptions = ["tensors enter the specification as identifiers; the harness recognises the derived tensors by comparison with all candidates (rtol 1e-9)",
                       "identities are real-analytic facts judged as lt/eq/gt under fixed tolerances (observation level): rtol 1e-9 .. 1e-6, 2e-3 on the midpoint grid",
                       "cubic stiffness tensors (mechanically stable); diagonal eigenstrains in the histories, diagonal and shear eigenstrains and general rotations in the identities"]
    n = 5 if ctx.tier == "quick" else 6
    base = ["SPECIFICATION Spec", "CONSTANTS", '  Stiff = {"C1", "C2"}', '  Rots = {"I", "R1"}', '  Eigs = {"e1"}', '  Stresses = {"s1"}',
            '  Shapes = {"ellipsoid", "sphere"}', "  MaxOps = %d" % n]
    cfg = T.write_cfg("elastic_mc", base + ['  Mode = "%s"' % MODE, "INVARIANT DerivedCurrent", "INVARIANT OrderIndependent", "PROPERTY ShapeRule"])
    res = run_tlc("Elastic", cfg, deadlock=False, timeout=1500)
    ctx.add_tlc(res, "Elastic.tla: all histories of <= %d calls" % n)
    if res.violated:
        ctx.tlc_violation(res, "Elastic")
    for inv, mode in (("VacComputedRotated", MODE), ("VacPrecDiffers", MODE), ("DeviationStressRotatedOnce", MODE), ("DerivedCurrent", "asbuilt")):
        cfgv = T.write_cfg("elastic_vac", base[:-1] + ["  MaxOps = 4", '  Mode = "%s"' % mode, "INVARIANT " + inv])
        rv = run_tlc("Elastic", cfgv, deadlock=False, timeout=600)
        if rv.violated != inv:
            raise MachineryError("vacuity: %s is not violated in mode %s (the situation it describes is never reached)" % (inv, mode))
    # ---- histories on the real object
    hist = D.gen_histories(ctx.rng, ctx.tier)
    traces = [D.run_history(h, how=i) for i, h in enumerate(hist)]
    can = copy.deepcopy(next(t for t in traces if any(e.get("op") == "setC" for e in t[1:])))
    for e in can[1:]:
        if e.get("op") == "setC":
            e["obs"]["dC"] = ["C1" if e["obs"]["dC"][0] != "C1" else "C2", e["obs"]["dC"][1]]
            break
    reached, r = T.validate("Elastic_Trace", ["CONSTANTS"] + CONSTS + ["  MaxOps = 0", '  Mode = "%s"' % MODE], traces + [can], "c16_hist")
    ctx.add_tlc(r, "Elastic_Trace over %d histories" % len(traces))
    if r.violated or reached is None:
        raise MachineryError("Elastic_Trace validation failed")
    if not reached[-1]["fails"]:
        raise MachineryError("binding self-test failed: corrupted stiffness stamp accepted")
    rotated = 0
    for h, ev, v in zip(hist, traces, reached):
        ctx.replayed += len(ev) - 1
        nontriv = any(e.get("obs", {}).get("dC", ["zero"])[0] != "zero" for e in ev[1:])
        rotated += any(e.get("obs", {}).get("dC", ["", "I"])[1] != "I" for e in ev[1:])
        ctx.case([list(o) for o in h], nontrivial=nontriv, sample={"history": h, "last": ev[-1]} if len(ctx.samples) < 3 and nontriv else None)
        if v["l"] != len(ev) + 1:
            ctx.violation("c16:trace-not-consumed", "history %s not consumed at event %d" % (h, v["l"]), {"history": h, "events": ev})
        for f in v["fails"]:
            ctx.violation("c16:hist:%s" % f[0], "history %s: clause %s fails at call %d (%s); events %s" % (h, f[0], f[1] - 1, f[2], ev[f[1] - 1] if f[1] - 1 < len(ev) else ""),
                          {"history": h, "events": ev, "fail": f})
    if rotated == 0:
        raise MachineryError("vacuity: no history held a rotated stiffness")
    # ---- identities
    rels = D.energy_relations(ctx.rng, ctx.tier)
    reached2, r2 = T.validate("Relations", [], [rels], "c16_rel")
    ctx.add_tlc(r2, "Relations over %d stated identities" % (len(rels) - 1))
    if r2.violated or reached2 is None:
        raise MachineryError("Relations validation failed")
    v = reached2[0]
    ctx.replayed += len(rels) - 1
    groups = sorted({e["group"] for e in rels if e["e"] == "rel"})
    for g in groups:
        ctx.case("identity:" + g, nontrivial=True)
    ctx.extra["identity_groups"] = groups
    if v["l"] != len(rels) + 1:
        ctx.violation("c16:rel-not-consumed", "relation list not consumed at %d" % v["l"], {})
    for f in v["fails"]:
        ctx.violation("c16:%s" % f[0], "identity %s violated at %s (observed %s, stated %s)" % (f[0], f[1], f[2], f[3]), {"fail": f})


if __name__ == "__main__":
    main(run, "C16", "model_checking")
