"""C20 -- saved files and surrogates reproduce what they were made from."""
import itertools
import concurrent.futures as cf
from fractions import Fraction as Fr
from ..core import main
from ..tlc import run_tlc, MachineryError
from .. import traces as T


def _pp(cfg):
    from .. import c20_drv as D
    return D.persist_precip(cfg)


def run(ctx, replay=None):
    from .. import c20_drv as D
    from .. import diff_drv
    ctx.rule = ("Persistence: precipitation models (scripted thermodynamics; 1-2 phases, PSD recording on, adaptive/fixed grids, both iterators) saved after "
                "1, 2 or 3 solve calls and single-phase diffusion models with recording on/off are loaded into a freshly built model of the same configuration; "
                "every history, the current state, every PSD/bounds/size array and a re-save are compared bit for bit and Equiv.tla accepts only all-eq. "
                "Surrogates: Surrogate.tla (TLC: all train/query/reload histories <= 4 over 2 phases) states that an untrained quantity is answered by the "
                "same-named backend method and a trained one never touches the backend; every history of <= 3 operations over 3 models x 4 query methods x 2 "
                "phases (+ seeded longer ones, log/linear, broadcast or not) is executed on a BinarySurrogate over a call-recording backend and validated by "
                "Surrogate_Trace.tla, including reproduction of the training data and identical predictions after toJson/fromJson; a MulticomponentSurrogate on a scripted ternary backend with negative cross-diffusivities is trained for diffusivity, queried at the training points and rebuilt from its file.")
    ctx.assumptions = ["scripted binary backend (the surrogate classes accept any thermodynamics object); multicomponent curvature surrogate not covered"]
    # ---- persistence
    ph = dict(name="beta", gamma=0.05)
    p2 = dict(name="gamma", gamma=0.055, xe0=0.004, xb=0.3)
    pcfgs = []
    for k in (1, 2, 3):
        for it in ("euler", "rk4"):
            pcfgs.append(dict(tag="persist-%dcalls-%s" % (k, it), phases=[ph], D=1e-16, calls=[(20.0, 0.02)] * k, iter=it, cap=400))
    pcfgs.append(dict(tag="persist-2ph", phases=[ph, p2], D=1e-16, calls=[(20.0, 0.02), (20.0, 0.02)], iter="euler", cap=400))
    pcfgs.append(dict(tag="persist-fixedgrid", phases=[ph], D=1e-16, pbm=(1e-10, 1e-9, 60, 30, 90, False), calls=[(30.0, 0.02)], iter="euler", cap=400))
    pcfgs.append(dict(tag="persist-remeshed", phases=[ph], D=1e-15, pbm=(1e-10, 1e-9, 24, 12, 36, True), calls=[(100.0, 0.01)], iter="euler", cap=600))
    # non-spherical precipitates: constant aspect ratio, size-dependent aspect ratio, aspect ratio of every size class from the strain energy
    pcfgs.append(dict(tag="persist-plate-ar3", phases=[dict(ph, shape=("plate", 3.0))], D=1e-16, calls=[(20.0, 0.02)], iter="euler", cap=400))
    pcfgs.append(dict(tag="persist-needle-ar-function", phases=[dict(ph, shape=("needle", ("linear", 1.5, 0.8)))], D=1e-16, calls=[(20.0, 0.02)], iter="rk4", cap=400))
    pcfgs.append(dict(tag="persist-plate-ar-from-strain-energy", phases=[dict(ph, strainAR=("plate", (6.67e-3, 6.67e-3, 2.86e-2), 57.1e9, 0.33))], D=1e-16,
                      pbm=(1e-10, 2e-9, 40, 30, 60, True), calls=[(20.0, 0.02)], iter="euler", cap=400))
    with cf.ProcessPoolExecutor(max_workers=len(pcfgs)) as ex:
        pres = list(ex.map(_pp, pcfgs))
    labels = [c["tag"] for c in pcfgs]
    traces = [r[0] for r in pres]
    infos = [r[1] for r in pres]
    dcases = diff_drv.gen_cases(ctx.rng, "quick")[:6]
    for i, c in enumerate(dcases):
        for rec in (True, False):
            ev, info = D.persist_diffusion(c, rec)
            traces.append(ev); infos.append(info); labels.append("persist-diffusion-%d-record%s" % (i, rec))
        for variant in ("on_then_off", "data_removed"):
            ev, info = D.persist_diffusion(c, True, variant)
            traces.append(ev); infos.append(info); labels.append("persist-diffusion-%d-%s" % (i, variant))
    ev, info = D.persist_strength(dict(tag="persist-strength", phases=[ph], D=1e-16, calls=[(20.0, 0.02), (20.0, 0.02)], cap=300))
    traces.append(ev); infos.append(info); labels.append("persist-strength")
    reached, res = T.validate("Equiv", [], traces, "c20_equiv")
    ctx.add_tlc(res, "Equiv over %d save/load pairs" % len(traces))
    if res.violated or reached is None:
        raise MachineryError("Equiv failed")
    for lab, ev, info, v in zip(labels, traces, infos, reached):
        ctx.replayed += info["steps"]
        ctx.case(lab, nontrivial=info["steps"] > 1, sample={"pair": lab, "events": ev[:4]} if len(ctx.samples) < 2 else None)
        if v["l"] != len(ev) + 1 or v["fails"]:
            kind = "diffusion-recordFalse" if lab.endswith("recordFalse") else ("diffusion" if "diffusion" in lab else "precipitation")
            ctx.violation("persist:%s:%s" % (kind, ",".join(sorted(set(f[0].split(":")[0] for f in v["fails"])))[:60]),
                          "save/load pair %s differs: %s" % (lab, v["fails"][:4]), {"pair": lab, "fails": v["fails"]})
    # ---- surrogate
    res = run_tlc("Surrogate", "MC_Surrogate.cfg", deadlock=False, timeout=600)
    ctx.add_tlc(res, "Surrogate.tla histories <= 4")
    if res.violated:
        ctx.tlc_violation(res, "Surrogate")
    models = ["drivingForce", "diffusivity", "interfacialComposition"]
    queries = list(D.QUERY_ARGS)
    alphabet = [("train", m, ph) for m in models for ph in ("beta",)] + [("train", "drivingForce", "gamma")] + \
               [("query", q, ph) for q in queries for ph in ("beta", "gamma")] + [("reload",)]
    hist = [list(h) for h in itertools.product(alphabet, repeat=2) if any(o[0] == "query" for o in h)]
    trains = [o for o in alphabet if o[0] == "train"]
    qs = [o for o in alphabet if o[0] == "query"]
    for tr in trains:                                   # train one model, rebuild from the saved file, then query everything
        for q in qs:
            hist.append([tr, ("reload",), q])
    for _ in range(40 if ctx.tier == "quick" else 400):
        hist.append([ctx.rng.choice(alphabet) for _ in range(ctx.rng.randint(3, 6))])
    straces = []
    for i, h in enumerate(hist):
        # diffusivity is trained for the matrix phase: query it with the matrix phase name
        h2 = [(o[0], o[1], "alpha") if (o[0] == "train" and o[1] == "diffusivity") or (o[0] == "query" and o[1] in ("getInterdiffusivity", "getTracerDiffusivity")) else o for o in h]
        straces.append(D.surrogate_history(h2, logx=(i % 3 == 1), broadcast=(i % 2 == 0)))
    # multicomponent surrogate (scripted ternary backend with negative cross-diffusivities): diffusivity trained, queried at the
    # training points, rebuilt from its saved file
    th_ = D.gen_ternary_histories()
    hist = hist + [[("ternary",) + tuple(o) for o in h] for h in th_]
    straces += [D.ternary_surrogate_history(h) for h in th_]
    reached, res = T.validate("Surrogate_Trace", ["CONSTANTS", '  Phases = {"alpha", "beta", "gamma"}', "  MaxOps = 100"], straces, "c20_sur")
    ctx.add_tlc(res, "Surrogate_Trace over %d histories" % len(straces))
    if res.violated or reached is None:
        raise MachineryError("Surrogate_Trace failed: %s" % res.violated)
    for h, ev, v in zip(hist, straces, reached):
        ctx.replayed += len(ev) - 1
        ctx.case({"h": [list(o) for o in h]}, nontrivial=True, sample={"history": [list(o) for o in h], "events": ev[1:3]} if len(ctx.samples) < 5 else None)
        if v["l"] != len(ev) + 1:
            ctx.violation("surrogate:trace-not-consumed", "surrogate history %s not consumed at event %d: %s" % (h, v["l"], ev[min(v["l"], len(ev)) - 1]), {"history": h, "events": ev})
        for clause, at in v["fails"]:
            e = ev[at - 1]
            ctx.violation("surrogate:%s:%s" % (clause, e.get("q", e.get("e"))), "surrogate history %s: %s at event %d %s" % (h, clause, at, e), {"history": h, "event": e})

    # untrained MulticomponentSurrogate, every query method, keyword and positional call styles: same answer and same backend call as the backend alone
    pev = D.passthrough_relations()
    reached_p, rp = T.validate("Relations", [], [pev], "c20_passthrough")
    ctx.add_tlc(rp, "Relations over the pass-through queries")
    if rp.violated or reached_p is None:
        raise MachineryError("Relations failed (pass-through)")
    npr = sum(1 for e in pev if e["e"] == "rel")
    ctx.replayed += npr
    ctx.case("multicomponent-passthrough", nontrivial=npr >= 40, sample={"events": pev[1:3]})
    if npr < 40 and pev[-1]["e"] != "exception":
        raise MachineryError("vacuity: pass-through produced %d relations" % npr)
    if reached_p[0]["l"] != len(pev) + 1:
        ctx.violation("surrogate-passthrough:trace-not-consumed", "pass-through relations not consumed", {})
    for f in reached_p[0]["fails"]:
        ctx.violation("surrogate-passthrough:%s" % f[0], "untrained MulticomponentSurrogate: %s violated at %s (observed %s, stated %s)" % (f[0], f[1], f[2], f[3]), {"fail": f})


if __name__ == "__main__":
    main(run, "C20", "model_checking")
