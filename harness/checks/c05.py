"""C05 -- the solver honours its time and state contract for any model."""
import sys, concurrent.futures as cf
from ..core import Ctx, main
from ..tlc import run_tlc, require_coverage, MachineryError
from .. import traces as T

PROPS = ["StrictlyIncreasing", "StepWithinFractions", "EndsExactly", "StopEndsRun", "Continues"]
INVS = ["TypeOK", "NeverExceedEnd", "ShapesAgree"]
STAGE_TIMES = "documented"


def mc_cfg(nm, it, props, lays, spans="{8}", solves=2, live=True):
    return ["SPECIFICATION " + ("FairSpec" if live else "Spec"), "CONSTANTS", "  NM = %d" % nm, '  Iter = "%s"' % it,
            "  Spans = " + spans, "  MinDens = {8}", "  MaxDens = {2}", "  T0s = {0, 3}",
            "  Proposals <- " + props, "  Layouts <- " + lays, "  MaxSolves = %d" % solves, "  MaxSteps = 8",
            '  StageTimes = "%s"' % STAGE_TIMES] + \
           ["INVARIANT " + i for i in INVS] + ["PROPERTY " + p for p in PROPS] + (["PROPERTY Terminates"] if live else [])


def trace_consts(nm, it):
    return ["CONSTANTS", "  NM = %d" % nm, '  Iter = "%s"' % it, "  Spans = {8}", "  MinDens = {8}", "  MaxDens = {2}",
            "  T0s = {0}", "  Proposals = {}", "  Layouts = {}", "  MaxSolves = 1000", "  MaxSteps = 1000",
            '  StageTimes = "%s"' % STAGE_TIMES]


def model_check(ctx):
    if ctx.tier == "quick":
        jobs = [(1, "euler", "PropsFull", "Lay1", "{8}", 1), (1, "rk4", "PropsSmall", "Lay2", "{8}", 1),
                (2, "euler", "PropsSmall", "Lay1", "{8}", 1)]
    else:
        jobs = [(1, "euler", "PropsFull", "Lay2", "{8}", 2), (1, "rk4", "PropsFull", "Lay2", "{8}", 2),
                (2, "euler", "PropsSmall", "Lay2", "{8}", 1), (2, "rk4", "PropsSmall", "Lay1", "{8}", 1),
                (3, "euler", "PropsSmall", "Lay1", "{8}", 1)]
    for nm, it, props, lays, spans, solves in jobs:
        cfg = T.write_cfg("solver_mc_%d_%s" % (nm, it), mc_cfg(nm, it, props, lays, spans, solves))
        res = run_tlc("MC_Solver", cfg, coverage=True, deadlock=False, tag="solver_mc_%d_%s" % (nm, it), timeout=3000)
        ctx.add_tlc(res, "Solver exhaustive NM=%d %s %s %s spans=%s solves=%d" % (nm, it, props, lays, spans, solves))
        if res.violated:
            ctx.tlc_violation(res, "Solver NM=%d %s" % (nm, it))
        else:
            require_coverage(res, ["SolveCall", "Setup", "CurrentX", "SolveBegin", "LoopTest", "PreProcess",
                                   "ShrinkDtMax", "GetdXdt", "GetDt", "Correct", "Advance", "PostProcess"])


def _run_cases(args):
    from .. import solver_drv as D
    return [D.run_trace(c) for c in args]


def gen_and_run(ctx):
    from .. import solver_drv as D
    out = {}
    for nm in (1, 2, 3):
        for it in ("euler", "rk4"):
            cases = D.gen_cases(ctx.rng, ctx.tier, nm, it)
            out[(nm, it)] = (cases, [D.run_trace(c) for c in cases])
    return out


def canary(tr):
    """binding self-test: a copy of an accepted trace with one logged field corrupted must be rejected"""
    import copy
    c = copy.deepcopy(tr)
    for e in c:
        if e["e"] == "post":
            e["t"] += 1
            return c
    return None


def validate_group(key, traces):
    nm, it = key
    tag = "solver_tr_%d_%s" % (nm, it)
    can = canary(traces[0])
    reached, res = T.validate("Solver_Trace", trace_consts(nm, it), traces + ([can] if can else []), tag,
                              invariants=INVS, properties=PROPS)
    if can and reached is not None:
        if reached[-1] == len(can) + 1:
            raise MachineryError("binding self-test failed: corrupted trace accepted (%s)" % tag)
        reached = reached[:-1]
    return reached, res


def run(ctx, replay=None):
    ctx.rule = ("TLC exhaustive on Solver.tla (all proposal sequences incl. NaN/inf/<=0, stop schedules, layout changes, "
                "1-2 solve calls, 1-3 coupled models, both iterators); then every callback of the real "
                "DESolver/GenericModel/Coupler driven by scripted models is validated event-by-event against the same "
                "actions by Solver_Trace.tla. A case is distinct by its (models, iterator, script, calls); non-trivial "
                "if at least one step was taken.")
    ctx.assumptions = ["minDtFrac > 0 and tick-exact (dyadic) times: float arithmetic is exact in the replay domain",
                       "scripted derivative field f_j(t)=2j+4t is linear in t; iterator is linear in derivative values"]
    from .. import solver_drv as D
    if replay:
        case = replay["detail"]["case"]
        tr = D.run_trace(case)
        groups = {(case["nm"], case["iter"]): ([case], [tr])}
    else:
        model_check(ctx)
        groups = gen_and_run(ctx)
    with cf.ThreadPoolExecutor(max_workers=6) as ex:
        futs = {k: ex.submit(validate_group, k, v[1]) for k, v in groups.items()}
        for k, fut in futs.items():
            cases, trs = groups[k]
            reached, res = fut.result()
            ctx.add_tlc(res, "Solver_Trace NM=%d %s (%d traces)" % (k[0], k[1], len(trs)))
            if res.violated:
                ctx.violation("trace-invariant:%s" % res.violated, "property %s violated on an implementation trace" % res.violated,
                              {"trace_text": res.trace_text[:6000]})
                continue
            bad = dict(T.rejected(trs, reached))
            for i, (c, tr) in enumerate(zip(cases, trs)):
                nsteps = sum(1 for e in tr if e["e"] == "post")
                ctx.replayed += len(tr) - 1
                ctx.case({"c": c}, nontrivial=nsteps > 0,
                         sample={"case": c, "events": len(tr), "first_events": tr[:6]} if i % 97 == 0 else None)
                if i in bad:
                    at = bad[i]
                    ev = tr[at - 1] if at - 1 < len(tr) else {"e": "end"}
                    ctx.violation("solver-trace:%s:%s" % (k[1], ev.get("e")),
                                  "implementation trace rejected by Solver.tla at event %d %r" % (at, ev),
                                  {"case": c, "rejected_at": at, "event": ev, "context": tr[max(0, at - 6):at + 2]})
    ctx.exhaustive = False


if __name__ == "__main__":
    main(run, "C05", "model_checking")
