"""C06 -- integrators reach their nominal order, also for time-dependent problems."""
from fractions import Fraction
from ..core import main
from ..tlc import eval_cases, MachineryError

CLAUSES = ["explicit", "rowSumsMatchTimes", "orderAutonomous", "orderNonAutonomous", "exactOrder",
           "documentedTableau", "documentedTimes", "quadrature", "stateIntact"]


def run(ctx, replay=None):
    from .. import rk_probe as K
    ctx.rule = ("Butcher tableau (A, b) and stage times c extracted from the running iterator by a unit-vector probe "
                "(through GenericModel.solve->DESolver and directly through DESolver's wrappers) for step sizes 2^-k and start "
                "times 0 / non-zero; TLC (RungeKutta.tla) decides: explicitness, c = A.1, order conditions up to the "
                "nominal order with the times actually used, exactness of order, documented tableau/times, one-step "
                "quadrature of x'=t^3 over one step and over runs whose last step the solver has to shorten, state vector untouched. Distinct = (iterator, path, t0, h).")
    ctx.assumptions = ["the iterator is linear in the derivative values it is given (true of anything written against updateX)",
                       "tableau entries are rationals with denominator <= 1000"]
    hs = [2.0 ** -k for k in ((0, 1, 3) if ctx.tier == "quick" else (0, 1, 2, 3, 5, 8))]
    t0s = [0.0, 1.0, 3.5] if ctx.tier == "quick" else [0.0, 1.0, 3.5, 64.0, 0.125]
    cases, meta = [], []
    if replay:
        combos = [tuple(replay["detail"]["case"])]
    else:
        combos = [(it, via, t0, h) for it in ("euler", "rk4") for via in ("solve", "direct") for t0 in t0s for h in hs]
    for it, via, t0, h in combos:
        ex = K.extract(it, t0, h, via)
        doc = K.DOC[it]
        if ex["S"] != doc["S"]:
            ctx.violation("rk:%s:stages" % it, "%s made %d derivative calls, documented %d" % (it, ex["S"], doc["S"]),
                          {"case": [it, via, t0, h], "extracted": ex})
            continue
        quads = []
        for (qt, qh, steps) in ((1.0, 0.5, [0.5]), (0.0, 1.0, [1.0]), (2.0, 0.25, [0.25]),
                                # the end time is not a multiple of the proposed step: the last step is shortened by the solver
                                (1.0, 0.5, [0.5, 0.25]), (0.0, 1.0, [1.0, 1.0, 0.5]), (3.0, 0.25, [0.25, 0.125])):
            tq = Fraction(qt)
            quads.append({"t0": [tq.numerator, tq.denominator], "hs": [[Fraction(v).numerator, Fraction(v).denominator] for v in steps],
                          "obs": K.quad(it, qt, qh, span=sum(steps))})
        c = dict(name="%s/%s/t0=%g/h=%g" % (it, via, t0, h), order=doc["order"], S=ex["S"], A=ex["A"], b=ex["b"],
                 ct=ex["ct"], docA=doc["docA"], docb=doc["docb"], docc=doc["docc"], intact=ex["intact"], quad=quads)
        cases.append(c)
        meta.append((it, via, t0, h))
    # right-hand sides that return arrays the caller still owns (the state vector itself, a stored array)
    for it in ("euler", "rk4"):
        al = K.alias_intact(it)
        ctx.replayed += 9
        ctx.case(["alias", it], sample={"alias": it, "observed": al} if len(ctx.samples) < 4 else None)
        for k, v in al.items():
            if not v:
                ctx.violation("rk:%s:alias:%s" % (it, k), "%s iterator with a right-hand side that returns %s: %s" %
                              (it, "its argument" if k in ("state", "step_alias", "solver_state", "solver_step_alias") else ("one work array it refills on every call" if k.startswith("step_workbuf") else "a stored array"),
                               {"state": "the state vector it was given was modified", "stored": "the array owned by the right-hand side was modified",
                                "step_alias": "the step is not the documented one", "step_stored": "the step is not the documented one",
                                "step_workbuf": "the step is not the documented one", "step_workbuf_t": "the step is not the documented one (x' = t^3)",
                                "solver_state": "through DESolver's wrappers (identity flatten): the state vector it was given was modified",
                                "solver_step_alias": "through DESolver's wrappers (identity flatten): the step is not the documented one",
                                "solver_stored": "through DESolver's wrappers (identity flatten): the array owned by the right-hand side was modified",
                                "solver_step_stored": "through DESolver's wrappers (identity flatten): two steps with one stored rate array are not the documented ones",
                                "solver_step_memo": "through DESolver's wrappers (identity flatten): a memoised time-dependent rate gives another step the second time"}[k]), {"iterator": it, "observed": al})
    if not cases:
        return
    out, res = eval_cases("RungeKutta", cases, tag="rk")
    ctx.add_tlc(res, "RungeKutta clause evaluation on %d extracted tableaux" % len(cases))
    ctx.states = max(ctx.states, 1); ctx.transitions = max(ctx.transitions, 1)
    for c, v, mt in zip(cases, out, meta):
        ctx.replayed += c["S"] + 1
        ctx.case(list(mt), sample={"case": mt, "A": c["A"], "b": c["b"], "ct": c["ct"]} if len(ctx.samples) < 3 else None)
        for cl in CLAUSES:
            if not v[cl]:
                ctx.violation("rk:%s:%s" % (mt[0], cl), "%s: clause %s fails for the extracted tableau (ct=%s, b=%s)" %
                              (c["name"], cl, c["ct"], c["b"]), {"case": list(mt), "verdict": v, "extracted": c})
    ctx.exhaustive = False


if __name__ == "__main__":
    main(run, "C06", "model_checking")
