"""C15 -- shape factors: the ShapeFactor object and the critical-radius search (decided with Shape.tla), geometric identities (observed).
Partial claim, see DESIGN 3/C15."""
import copy
from fractions import Fraction as Fr
from ..core import main, close
from ..tlc import run_tlc, eval_parallel, MachineryError
from .. import traces as T


def run(ctx, replay=None):
    from .. import c15_drv as D
    ctx.rule = ("(object) Shape.tla: description, aspect ratio (number or function of the radius), the critical-radius finder that goes with it, callbacks; TLC explores "
                "every history of <= 4 setPrecipitateShape / setAspectRatio / query calls (FinderMatches, ClippedAtOne, SphereIsUnit); every history of <= 2 (quick) / 3 "
                "(thorough) calls from a 37-operation alphabet plus seeded longer ones runs on a real ShapeFactor and Shape_Trace.tla requires the logged state "
                "(description, aspect-ratio mode, finder, callbacks fired, aspect ratio the factor functions effectively used) to equal the specification's. "
                "(search) the bisection of _findRcrit is transcribed over exact rationals for an affine factor function: TLC proves on a 432-case lattice that a bracketed "
                "root is returned to the tolerance; the real method, with the object's factor function replaced by the same affine function, must return the same "
                "radius after the same number of halvings on the lattice and on seeded dyadic cases. (identities) unit volume and requested aspect ratio of the "
                "semi-axes, thermodynamic factor = spheroid area / sphere area and kinetic factor = capacitance / sphere radius against numerical quadrature, value 1 "
                "and monotone growth for needle/plate, continuity at aspect ratio 1 for every factor of every shape, scalar = array, below 1 = 1, caller's arrays "
                "untouched, root of the search with real factor functions: three-way comparisons judged by Relations.tla.")
    ctx.assumptions = ["identities are real-analytic facts judged as lt/eq/gt under fixed tolerances (observation level): 1e-12 algebraic, 1e-8/1e-7 against scipy quadrature, 2e-6 continuity at 1+1e-7",
                       "the bisection is bound for affine factor functions with dyadic coefficients (exact in floating point)"]
    cfg = T.write_cfg("shape_mc", ["SPECIFICATION Spec", "CONSTANTS", '  Kinds = {"sphere", "needle", "plate", "cubic"}', "  Ars <- ArsDef",
                                   "  MaxOps = %d" % (4 if ctx.tier == "quick" else 5), "INVARIANT FinderMatches", "INVARIANT ClippedAtOne", "INVARIANT SphereIsUnit"])
    res = run_tlc("MC_Shape", cfg, deadlock=False, timeout=1500)
    ctx.add_tlc(res, "Shape.tla object histories + ASSUME AllRootsFound over the bisection lattice")
    if res.violated:
        ctx.tlc_violation(res, "Shape")
    # ---- object histories
    hist = D.gen_histories(ctx.rng, ctx.tier)
    traces = [D.run_history(h) for h in hist]
    can = copy.deepcopy(traces[5])
    can[1]["obs"]["finder"] = "bisect" if can[1]["obs"]["finder"] == "scalar" else "scalar"
    reached, r = T.validate("Shape_Trace", ["CONSTANTS", '  Kinds = {"sphere", "needle", "plate", "cubic"}', '  Ars = {}', "  MaxOps = 0"], traces + [can], "c15_hist")
    ctx.add_tlc(r, "Shape_Trace over %d histories" % len(traces))
    if r.violated or reached is None:
        raise MachineryError("Shape_Trace validation failed")
    if not reached[-1]["fails"]:
        raise MachineryError("binding self-test failed: corrupted finder accepted")
    clipped = 0
    for h, ev, v in zip(hist, traces, reached):
        ctx.replayed += len(ev) - 1
        clipped += any(e.get("op") == "query" and e["obs"]["ar"] == ["num", 0] and e["obs"]["kind"] != "sphere" for e in ev[1:])
        ctx.case([[o[0], o[1], list(o[2]) if o[2] else None, o[3]] for o in h], nontrivial=len(h) > 1, sample={"history": h, "last": ev[-1]} if len(ctx.samples) < 2 else None)
        if v["l"] != len(ev) + 1:
            ctx.violation("c15:trace-not-consumed", "history %s not consumed at event %d" % (h, v["l"]), {"history": h, "events": ev})
        for f in v["fails"]:
            ctx.violation("c15:hist:%s" % f[0], "history %s: clause %s fails at call %d (%s)" % (h, f[0], f[1] - 1, f[2]), {"history": h, "events": ev, "fail": f})
    if clipped == 0:
        raise MachineryError("vacuity: no query saw an aspect ratio below 1")
    # ---- bisection
    cases = D.bisection_cases(ctx.rng, ctx.tier)
    js = [{k: D.rat(v) for k, v in c.items()} for c in cases]
    skipped = []
    exp, ress = eval_parallel("Shape_Eval", js, tag="shapeeval", skipped=skipped)
    ctx.extra["skipped_overflow_cases"] = len(skipped)
    if len(skipped) > len(js) // 10:
        raise MachineryError("too many bisection cases overflow TLC's 32-bit integers: %d of %d" % (len(skipped), len(js)))
    for rr in ress:
        ctx.add_tlc(rr, "Shape_Eval")
    nb = 0
    for c, j, e in zip(cases, js, exp):
        if e is None or not e["bracketed"]:
            continue
        o = D.run_bisection(c)
        ctx.replayed += 1
        nb += bool(e["bracketed"])
        ctx.case(j, nontrivial=bool(e["bracketed"]), sample={"case": j, "spec": e, "observed": o} if len(ctx.samples) < 4 else None)
        bad = []
        if "exc" in o:
            bad.append("exception")
        else:
            if not close(o["r"], Fr(*e["r"]), rtol=1e-12):
                bad.append("radius")
            if o["n"] != e["n"]:
                bad.append("halvings")
        if not e["rootok"]:
            bad.append("spec:RootFound")
        if bad:
            ctx.violation("c15:bisection:%s" % ",".join(bad), "_findRcrit vs Shape.tla on %s: %s (observed %s, specification %s)" % (j, bad, o, e), {"case": j, "observed": o, "expected": e})
    if nb == 0:
        raise MachineryError("vacuity: no bracketed bisection case")
    # ---- identities
    rels = D.shape_relations(ctx.rng, ctx.tier)
    reached2, r2 = T.validate("Relations", [], [rels], "c15_rel")
    ctx.add_tlc(r2, "Relations over %d stated identities" % (len(rels) - 1))
    if r2.violated or reached2 is None:
        raise MachineryError("Relations validation failed")
    v = reached2[0]
    ctx.replayed += len(rels) - 1
    groups = sorted({e["group"] for e in rels if e["e"] == "rel"})
    for g in groups:
        ctx.case("identity:" + g, nontrivial=True)
    ctx.extra["identity_groups"] = groups
    if v["l"] != len(rels) + 1:
        ctx.violation("c15:rel-not-consumed", "relation list not consumed at %d" % v["l"], {})
    for f in v["fails"]:
        ctx.violation("c15:%s" % f[0], "identity %s violated at %s (observed %s, stated %s)" % (f[0], f[1], f[2], f[3]), {"fail": f})


if __name__ == "__main__":
    main(run, "C15", "model_checking")
