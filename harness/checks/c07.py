"""C07 -- size-class transport is conservative and bounded."""
from fractions import Fraction as Fr
from ..core import main, close
from ..tlc import run_tlc, eval_parallel, MachineryError
from .. import traces as T

NUCMODE = "stated"     # "asbuilt" before the fix of the below-grid nucleation class (known_findings.json)


def fits(c):
    lim = 2 ** 28
    b = c["b"]
    tot = Fr(0)
    for i, n in enumerate(c["n"]):
        ctr = (b[i] + b[i + 1]) / 2
        tot += n * ctr ** 3
        if tot.numerator > lim or tot.denominator > lim:
            return False
    for j, g in enumerate(c["g"]):
        for n in c["n"]:
            v = g * n / (b[1] - b[0]) * c["dt"]
            if abs(v.numerator) > lim or v.denominator > lim:
                return False
    return True


def cmp_vec(obs, exp):
    return len(obs) == len(exp) and all(close(o, Fr(e[0], e[1]), atol=1e-12) for o, e in zip(obs, exp))


def run(ctx, replay=None):
    from .. import pbm_drv as D
    ctx.rule = ("(A) TLC checks SumLaw/Upwind/NucleationClass/FaceLimit/NoNegative/StepLimit on PBMTransport.tla for every "
                "distribution x growth field x nucleation term x dt of the 3-class domain (exact rationals). "
                "(B) the real PopulationBalanceModel is run on the 3-class product (sampled in quick) plus seeded 4-12 class "
                "instances (sparse, huge range, 1/R growth, sign flips, radii below/inside/on bounds/above) and TLC "
                "(PBM_Eval.tla) computes the expected netFlux, dXdt, corrected netFlux/dXdt, step limit, dissolution index and "
                "nucleation class; equality within rtol 1e-9. Distinct = distinct input tuple; non-trivial = some population > 0 "
                "or rate > 0.")
    ctx.assumptions = ["uniform grids (as PopulationBalanceModel builds them); inputs exactly representable rationals"]
    if replay:
        c = {k: ([Fr(x[0], x[1]) for x in v] if isinstance(v, list) else (Fr(v[0], v[1]) if isinstance(v, (list, tuple)) else v))
             for k, v in replay["detail"]["case_json"].items() if k != "K"}
        for k in ("rate", "r", "dt", "ratio", "cur", "frac"):
            v = replay["detail"]["case_json"][k]
            c[k] = Fr(v[0], v[1])
        cases = [c]
    else:
        cfg = "MC_PBMTransport_q.cfg" if ctx.tier == "quick" else "MC_PBMTransport_3.cfg"
        lines = open(__import__("os").path.join(T.SPEC, cfg)).read().replace('Mode = "asbuilt"', 'Mode = "%s"' % NUCMODE) \
            .replace('Mode = "stated"', 'Mode = "%s"' % NUCMODE).splitlines()
        if ctx.tier == "quick":
            lines = [l.replace("Grids <- GridsDef", "Grids <- GridsQ") for l in lines]
        else:
            lines = [l.replace("Grids <- GridsDef", "Grids <- GridsT") for l in lines]      # (the third grid of GridsDef is the quick tier's)
        gen = T.write_cfg("pbmtransport", lines)
        res = run_tlc("MC_PBMTransport", gen, deadlock=False, timeout=6000, tag="pbmtransport")
        ctx.add_tlc(res, "PBMTransport exhaustive (%s)" % cfg)
        if res.violated:
            ctx.tlc_violation(res, "PBMTransport")
        # vacuity: the correction must actually occur in the domain
        vac = T.write_cfg("pbmtransport_vac", [l for l in lines if not l.startswith("INVARIANT")] + ["INVARIANT NeverCorrected"])
        rv = run_tlc("MC_PBMTransport", vac, deadlock=False, timeout=600, tag="pbmtransport_vac")
        if rv.violated != "NeverCorrected":
            raise MachineryError("vacuity: flux correction never occurs in the exhaustive domain")
        for comp in ("NeverScaledBothFaces", "AsBuiltTotalLimit"):
            vac = T.write_cfg("pbmtransport_vac", [l.replace("Grids <- GridsDef", "Grids <- GridsQ").replace("Grids <- GridsT", "Grids <- GridsQ") for l in lines if not l.startswith("INVARIANT")] + ["INVARIANT " + comp])
            rv = run_tlc("MC_PBMTransport", vac, deadlock=False, timeout=600, tag="pbmtransport_vac")
            if rv.violated != comp:
                raise MachineryError("vacuity: %s is not violated in the exhaustive domain (the both-faces correction is never exercised)" % comp)
        cases = [c for c in D.gen_transport(ctx.rng, ctx.tier) if fits(c)]
    obs = [D.transport_case(c) for c in cases]
    js = [D.to_json(c) for c in cases]
    import os
    os.environ["NUCMODE"] = NUCMODE
    skipped = []
    exp, ress = eval_parallel("PBM_Eval", js, tag="pbmeval", skipped=skipped)
    ctx.extra["skipped_overflow_cases"] = len(skipped)
    if len(skipped) > len(js) // 20:
        raise MachineryError("too many cases overflow TLC's 32-bit integers: %d" % len(skipped))
    for r in ress:
        ctx.add_tlc(r, "PBM_Eval")
    for c, j, o, e in zip(cases, js, obs, exp):
        if e is None:
            continue
        nontriv = any(v != 0 for v in c["n"]) or c["rate"] != 0
        ctx.replayed += 1
        ctx.case(j, nontrivial=nontriv, sample={"case": j, "observed": o} if len(ctx.samples) < 3 else None)
        if "exception" in o:
            ctx.violation("pbm-transport:exception", "real PBM raised %s" % o["exception"], {"case_json": j, "observed": o})
            continue
        bad = []
        for k in ("nf", "dx", "nfc", "dxc"):
            if not cmp_vec(o[k], e[k]):
                bad.append(k)
        if not close(o["dtlim"], Fr(*e["dtlim"])):
            bad.append("dtlim")
        if o["diss"] != e["diss"]:
            bad.append("diss")
        if c["rate"] != 0 and o["nuc"] != e["nuc"]:
            bad.append("nuc")
        if not o["args_intact"]:
            bad.append("args_intact")
        for k in ("sumlaw", "facelimit", "nonneg"):
            if not e[k]:
                bad.append("spec:" + k)
        if bad:
            ctx.violation("pbm-transport:" + ",".join(bad),
                          "PopulationBalanceModel disagrees with PBMTransport.tla on %s" % bad,
                          {"case_json": j, "observed": o, "expected": e, "fields": bad})

    grain_part(ctx)


def grain_part(ctx):
    """the step limit of GrainGrowthModel (the same transport on a grain size distribution) at every iteration, judged by Relations.tla"""
    from .. import gg_drv as G
    ev, info = G.step_limit_relations(ctx.tier)
    ev = ev + G.ratio_relations()[1:]            # the fraction a call names / the documented default, whatever the object was asked before
    reached, r = T.validate("Relations", [], [ev], "c07_grain")
    ctx.add_tlc(r, "Relations over the grain growth step limits")
    if r.violated or reached is None:
        raise MachineryError("Relations failed (grain growth step limit)")
    n = sum(1 for e in ev if e["e"] == "rel")
    ctx.replayed += info["iterations"]
    ctx.case("grain-growth-step-limit", nontrivial=n >= 20, sample={"events": ev[1:3], "info": info})
    if ev[-1]["e"] != "exception" and (n < 20 or info["regrids"] < 2):
        raise MachineryError("vacuity: grain growth runs made %d relations, %d changes of the size classes with a non-zero threshold" % (n, info["regrids"]))
    if reached[0]["l"] != len(ev) + 1:
        ctx.violation("grain-step:trace-not-consumed", "grain growth step relations not consumed", {})
    for f in reached[0]["fails"]:
        ctx.violation("grain-step:%s" % f[0], "GrainGrowthModel: %s violated at %s (observed %s, stated %s)" % (f[0], f[1], f[2], f[3]), {"fail": f})


if __name__ == "__main__":
    main(run, "C07", "model_checking")
