"""C11 -- results are equivariant under reordering of elements and of phases."""
from ..core import main
from ..kwn_checks import judge_pairs


def run(ctx, replay=None):
    from .. import kwn_pairs as P
    ctx.rule = ("Phase order: PrecipitateModel runs with 2 and 3 scripted phases of different parameters (interfacial energy, solvus, molar "
                "volume, site type), all step-size constraints enabled, both iterators, two solve calls, executed with the phase list in two "
                "orders; every history (un-permuted along the phase axis), the time grid and the final size distributions are compared item by "
                "item and Equiv.tla accepts the pair only if every comparison is eq. Element order: thermodynamic queries and short diffusion runs "
                "on the ternary databases with the solutes listed in both orders (see elements part); ternary SinglePhaseModel runs on a scripted name-addressed "
                "interdiffusivity with named boundary conditions (none, both solutes in either call order, one solute only), solutes listed as (B, C) and (C, B) (Relations.tla).")
    ctx.assumptions = ["phase-order comparisons use rtol 1e-9 (sums over phases are re-associated)"]
    pairs = [(a, b, perm, 1e-9, [], "phase-order/" + label) for (a, b, perm, label) in P.phase_order_pairs()]
    pairs += [(a, b, None, 1e-9, [], label) for (a, b, label) in P.element_order_pairs()]
    judge_pairs(ctx, pairs, "phaseorder")
    # diffusion profiles with boundary conditions, solutes listed in both orders (scripted name-addressed interdiffusivity)
    from .. import c11_bc, traces as T
    from ..tlc import MachineryError
    ev = c11_bc.relations(ctx.tier)
    reached, r = T.validate("Relations", [], [ev], "c11_bc")
    ctx.add_tlc(r, "Relations over the boundary-condition pairs")
    if r.violated or reached is None:
        raise MachineryError("Relations failed (C11 boundary conditions)")
    n = sum(1 for e in ev if e["e"] == "rel")
    ctx.replayed += n
    ctx.case("diffusion-bc-solute-order", nontrivial=n >= 10, sample={"events": ev[1:3]})
    if n < 10 and ev[-1]["e"] != "exception":
        raise MachineryError("vacuity: boundary-condition pairs produced %d relations" % n)
    if reached[0]["l"] != len(ev) + 1:
        ctx.violation("c11bc:trace-not-consumed", "boundary-condition relations not consumed", {})
    for f in reached[0]["fails"]:
        ctx.violation("c11bc:%s" % f[0], "ternary SinglePhaseModel: %s violated at %s (observed %s, stated %s)" % (f[0], f[1], f[2], f[3]), {"fail": f})
    try:
        from .. import thermo_drv
    except ImportError:
        thermo_drv = None
    if thermo_drv is not None:
        thermo_drv.element_order_part(ctx)


if __name__ == "__main__":
    main(run, "C11", "model_checking")
