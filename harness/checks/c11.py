"""C11 -- results are equivariant under reordering of elements and of phases."""
from ..core import main
from ..kwn_checks import judge_pairs


def run(ctx, replay=None):
    from .. import kwn_pairs as P
    ctx.rule = ("Phase order: PrecipitateModel runs with 2 and 3 scripted phases of different parameters (interfacial energy, solvus, molar "
                "volume, site type), all step-size constraints enabled, both iterators, two solve calls, executed with the phase list in two "
                "orders; every history (un-permuted along the phase axis), the time grid and the final size distributions are compared item by "
                "item and Equiv.tla accepts the pair only if every comparison is eq. Element order: thermodynamic queries and short diffusion runs "
                "on the ternary databases with the solutes listed in both orders (see elements part).")
    ctx.assumptions = ["phase-order comparisons use rtol 1e-9 (sums over phases are re-associated)"]
    pairs = [(a, b, perm, 1e-9, [], "phase-order/" + label) for (a, b, perm, label) in P.phase_order_pairs()]
    judge_pairs(ctx, pairs, "phaseorder")
    try:
        from .. import thermo_drv
    except ImportError:
        thermo_drv = None
    if thermo_drv is not None:
        thermo_drv.element_order_part(ctx)


if __name__ == "__main__":
    main(run, "C11", "model_checking")
