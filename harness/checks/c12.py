"""C12 -- driving force, phase boundary and critical radius agree with each other (partial claim, see DESIGN 3/C12)."""
from ..core import main
from ..tlc import MachineryError
from ..kwn_checks import judge, canary
from .. import traces as T


def run(ctx, replay=None):
    from .. import thermo_drv as TD
    ctx.rule = ("(1) growth-sign law: in every step of every precipitation run of the suite (scripted self-consistent thermodynamics, 1-2 phases, volume "
                "ratios, grain-boundary nuclei, re-meshing, dissolution) each size-class boundary at which the precipitate is stable is compared with the "
                "critical radius of that step and with the sign of its growth rate; KWN_Trace.tla requires larger => growth >= 0, smaller => growth <= 0 "
                "(steps whose lookup table is not at the current temperature, or whose critical radius is the minimum-radius clamp, are excluded). "
                "(2) ordered scans on the real Al-Zr database judged by Scan.tla: interfacial composition over an ascending Gibbs-Thomson grid (unstable sentinel "
                "upward closed, x_alpha non-decreasing, dG(x_alpha(g)) = g within the documented offset) and driving force over ascending supersaturation "
                "(non-decreasing, sign change at the planar solvus, four methods agree in sign away from it).")
    ctx.assumptions = ["real-valued relations enter as lt/eq/gt under fixed tolerances; clause dG(x_alpha(g))=g allows 1 J/mol offset + 0.2% + 2 J/mol",
                       "multicomponent growth-sign law is covered by scripted binary closure only; pycalphad multicomponent states not included"]
    def corrupt(ev):
        for e in ev:
            if e["e"] == "step" and e["ph"][0]["gsign"]:
                e["ph"][0]["gsign"] = [["gt", -1]]
                return
    canary(ctx, corrupt, "C12:growth-sign-vs-Rcrit")
    judge(ctx, ["C12:"])
    from ..cfg_part import config_part
    config_part(ctx, ["C12:"], "c12")      # ModelConfig.tla: setters in any order, reset()+setup(): the derived data are those of the inputs in force
    scans = TD.gibbs_scans(ctx.tier) + TD.supersaturation_scans(ctx.tier)
    traces = [ev for (_, ev) in scans]
    reached, res = T.validate("Scan", [], traces, "c12_scan")
    ctx.add_tlc(res, "Scan over %d ordered scans (real Al-Zr database)" % len(traces))
    if res.violated or reached is None:
        raise MachineryError("Scan validation failed")
    nsent = 0
    for (label, ev), v in zip(scans, reached):
        ctx.replayed += len(ev) - 1
        nsent += sum(1 for e in ev if e.get("sentinel"))
        ctx.case(label, nontrivial=len(ev) > 4, sample={"scan": label, "events": ev[1:4]} if len(ctx.samples) < 5 else None)
        if v["l"] != len(ev) + 1:
            ctx.violation("scan:trace-not-consumed", "%s not consumed at %d" % (label, v["l"]), {"scan": label})
        for clause, at in v["fails"]:
            ctx.violation("scan:%s" % clause, "%s: %s at point %d %s" % (label, clause, at, ev[at - 1]), {"scan": label, "event": ev[at - 1]})
    if nsent == 0:
        raise MachineryError("vacuity: no Gibbs-Thomson scan reached the unstable sentinel")


if __name__ == "__main__":
    main(run, "C12", "model_checking")
