"""C03 -- precipitation runs are well formed for every configuration and survive faults."""
import itertools
from ..core import main
from ..tlc import MachineryError
from ..kwn_checks import judge, canary
from .. import traces as T


def fault_enumeration(ctx):
    """every schedule of <= 2 failed driving-force equilibria among the first K calls, both iterators"""
    from .. import kwn_suite as S, kwn_drv as K
    import concurrent.futures as cf
    Kc = 8 if ctx.tier == "quick" else 14
    scheds = [[a] for a in range(Kc)] + [list(p) for p in itertools.combinations(range(Kc), 2)]
    cfgs = []
    for it in ("euler", "rk4"):
        for s in scheds:
            cfgs.append(dict(tag="faults-%s-%s" % (it, "_".join(map(str, s))), phases=[dict(name="beta", gamma=0.05)], D=1e-16,
                             calls=[(20.0, 0.05)], iter=it, faults={"drivingForce": s}, cap=40))
            # multicomponent path: the growth / interfacial-composition query returns no result, and the driving force does
            cfgs.append(dict(tag="faults-multi-growth-%s-%s" % (it, "_".join(map(str, s))), multi=True, phases=[dict(name="beta", gamma=0.05)],
                             calls=[(0.3, 0.05)], iter=it, faults={"growth": s}, cap=40))
        for s in scheds[::3]:
            cfgs.append(dict(tag="faults-multi-df-%s-%s" % (it, "_".join(map(str, s))), multi=True, phases=[dict(name="beta", gamma=0.05)],
                             calls=[(0.3, 0.05)], iter=it, faults={"drivingForce": s}, cap=40))
            # the impingement query of the nucleation rate fails: the backend answers with the previous factor, or with None when there is none yet
            cfgs.append(dict(tag="faults-multi-impingement-%s-%s" % (it, "_".join(map(str, s))), multi=True, phases=[dict(name="beta", gamma=0.05)],
                             calls=[(0.3, 0.05)], iter=it, faults={"impingement": s}, cap=40))
        # a cold-start outage: the growth / interfacial-composition query fails from the very first call until after the first nuclei exist
        for nf in (20, 40, 120):
            cfgs.append(dict(tag="faults-multi-growth-outage-%s-%d" % (it, nf), multi=True, phases=[dict(name="beta", gamma=0.05)],
                             calls=[(0.3, 0.05)], iter=it, faults={"growth": list(range(nf))}, cap=60))
    with cf.ProcessPoolExecutor(max_workers=14) as ex:
        results = list(ex.map(S._one, cfgs))
    traces = [r[0] for r in results]
    reached, res = T.validate("KWN_Trace", ["CONSTANTS", '  RefreshMode = "%s"' % S.REFRESH_MODE], traces, "kwn_faults")
    ctx.add_tlc(res, "KWN_Trace over %d fault schedules" % len(cfgs))
    if res.violated or reached is None:
        raise MachineryError("fault trace validation failed: %s" % res.violated)
    fired = 0
    for cfg, (ev, info), v in zip(cfgs, results, reached):
        ctx.replayed += info["steps"]
        fired += 1 if info["fired"] else 0
        ctx.case(cfg["tag"], nontrivial=bool(info["fired"]), sample={"config": cfg, "fired": info["fired"]} if len(ctx.samples) < 4 else None)
        bad = [c for c in v["fails"] if c[0].startswith("C03:")]
        if v["l"] != len(ev) + 1 or bad:
            ctx.violation("kwn-fault:%s%s:%s" % ("multi-" + list(cfg["faults"])[0] + ":" if cfg.get("multi") else "", cfg["iter"], bad[0][0] if bad else "trace-not-consumed"),
                          "fault schedule %s (%s): %s %s" % (cfg["faults"], cfg["iter"], bad, info.get("error") or ""),
                          {"config": cfg, "fails": v["fails"], "info": info})
    if fired < len(cfgs) // 2:
        raise MachineryError("vacuity: only %d of %d fault schedules actually fired" % (fired, len(cfgs)))
    ctx.extra["fault_schedules"] = len(cfgs)
    ctx.extra["fault_schedules_fired"] = fired


def run(ctx, replay=None):
    ctx.rule = ("(1) the configuration suite of C01 (adaptive/fixed grids with recording, site types, ramps above the solvus, dissolution, "
                "both iterators, repeated solve calls): every step must keep the 16 histories aligned (length n+1), times increasing, values "
                "finite, PSD >= 0, fractions/compositions in range, sum of fractions <= 1, grid/table arrays aligned, and every solve call must end "
                "at its requested time. (2) fault enumeration: every schedule of <= 2 backend failures (driving force returns (None, None) in binary and multicomponent runs; the multicomponent growth / "
                "interfacial-composition query returns None) among the first 8 (quick) / 14 (thorough) calls of that kind x both iterators; the run must finish and satisfy all of (1). "
                "Distinct = configuration or fault schedule; non-trivial = the fault actually fired / more than 5 steps.")
    ctx.assumptions = ["faults are injected at the documented failure value of getDrivingForce, (None, None); multicomponent growth faults are covered by the multicomponent suite; a failed impingement query returns the previous factor or None (what MulticomponentThermodynamics does)"]
    def corrupt(ev):
        for e in ev:
            if e["e"] == "step" and e["n"] == 20:
                e["lens"][3] += 1
    canary(ctx, corrupt, "C03:histories-aligned")
    judge(ctx, ["C03:"])
    fault_enumeration(ctx)


if __name__ == "__main__":
    main(run, "C03", "fault_enumeration")
