"""C04 -- diffusion conserves every component and honours boundary conditions."""
import os
from fractions import Fraction as Fr
from ..core import main, close
from ..tlc import eval_parallel, MachineryError

SETUPMODE = "once"        # "everycall" = as built before the fix (known_findings.json)


def run(ctx, replay=None):
    from .. import diff_drv as D
    ctx.rule = ("Diffusion.tla transcribes profile builders, setup, boundary conditions, single-phase fluxes, both iterators, "
                "clipping, recording and the DESolver loop over exact rationals. Seeded configurations (3-6 nodes, 1-2 solutes, "
                "all six profile builders, every flux/composition BC mix, constant/per-node/time-switched temperature, composition "
                "dependent D, 1-3 solve calls) are run through the real SinglePhaseModel with scripted thermodynamics; TLC evaluates "
                "the same run, checks Balance/ClosedConstant/DirichletFixed/Bounds on every step and across solve calls, and its "
                "predicted record (times and profiles) must equal the model's. Distinct = configuration; non-trivial = at least "
                "one step changed the profile. HomogenizationModel (all rules, closed / flux / fixed-composition boundaries, 1-2 solve calls, both iterators, scripted two-phase "
                "equilibrium): per-step balance with the model's own boundary fluxes, closed-system invariance, fixed nodes and bounds judged by Relations.tla.")
    ctx.assumptions = ["dyadic inputs (k/64 compositions, minComposition 2^-10) so float arithmetic is exact to rounding",
                       "scripted interdiffusivity D = Tm(T)(A + B x1); pycalphad-backed runs are covered by the trace part"]
    if replay:
        cases = [replay["detail"]["case_py"]]
        raise MachineryError("replay for C04: re-run with the same seed; case is stored in the replay file")
    homogenization_part(ctx)
    cases = D.gen_cases(ctx.rng, ctx.tier)
    obs = [D.run_case(c) for c in cases]
    js = [D.to_json(c) for c in cases]
    os.environ["SETUPMODE"] = SETUPMODE
    skipped = []
    exp, ress = eval_parallel("Diffusion_Eval", js, tag="diffeval", skipped=skipped)
    for r in ress:
        ctx.add_tlc(r, "Diffusion_Eval")
    ctx.extra["skipped_overflow_cases"] = len(skipped)
    if len(skipped) > len(js) // 4:
        raise MachineryError("too many cases overflow TLC's 32-bit integers: %d of %d" % (len(skipped), len(js)))
    for c, j, o, e in zip(cases, js, obs, exp):
        if e is None:
            continue
        nontriv = len(o["rec"]) > 1 and any(r["x"] != o["rec"][0]["x"] for r in o["rec"][1:])
        ctx.replayed += max(len(o["rec"]), 1)
        ctx.case(j, nontrivial=nontriv, sample={"case": j, "records": len(o["rec"])} if len(ctx.samples) < 2 else None)
        bad = []
        if o["err"] != e["err"]:
            bad.append("err:%s/%s" % (o["err"], e["err"]))
        elif not o["err"]:
            if len(o["rec"]) != len(e["rec"]):
                bad.append("records:%d/%d" % (len(o["rec"]), len(e["rec"])))
            else:
                for k, (ro, re_) in enumerate(zip(o["rec"], e["rec"])):
                    if not close(ro["t"], Fr(*re_["t"]), atol=1e-15):
                        bad.append("time[%d]" % k); break
                    if any(not close(v, Fr(*w), atol=1e-13) for rowo, rowe in zip(ro["x"], re_["x"]) for v, w in zip(rowo, rowe)):
                        bad.append("profile[%d]" % k); break
            if len(o.get("mesh", [])) != len(e["mesh"]):
                bad.append("mesh-count")
            else:
                for k, (mo, me) in enumerate(zip(o["mesh"], e["mesh"])):
                    if any(not close(v, Fr(*w), atol=1e-13) for rowo, rowe in zip(mo, me) for v, w in zip(rowo, rowe)):
                        bad.append("setMeshtoRecordedTime[%d]" % k); break
            for k in ("stepsOK", "closed", "dirichlet", "timesIncrease"):
                if not e[k]:
                    bad.append("spec:" + k)
        if bad:
            kinds = sorted(set(b.split("[")[0].split(":")[0] + (":" + b.split(":")[1] if b.startswith("spec:") else "") for b in bad))
            ctx.violation("diffusion:" + ",".join(kinds), "SinglePhaseModel vs Diffusion.tla: %s" % bad,
                          {"case_json": j, "bad": bad, "observed": o, "expected": e})


def homogenization_part(ctx):
    """HomogenizationModel: conservation / boundary clauses judged by Relations.tla on runs with a scripted two-phase equilibrium"""
    from .. import homog_drv as H
    from .. import traces as T
    cfgs = H.homog_model_configs()
    results = [H.homog_model_run(c) for c in cfgs]
    traces = [r[0] for r in results]
    import copy
    can = copy.deepcopy(traces[0])
    for e in can:
        if e["e"] == "rel" and e["group"] == "C04:closed-constant":
            e["c"] = "lt"
            break
    reached, res = T.validate("Relations", [], traces + [can], "c04_homog")
    ctx.add_tlc(res, "Relations over %d HomogenizationModel runs" % len(traces))
    if res.violated or reached is None:
        raise MachineryError("Relations failed (homogenization)")
    if not reached[-1]["fails"]:
        raise MachineryError("binding self-test failed: corrupted homogenization trace accepted")
    for c, (ev, info), v in zip(cfgs, results, reached):
        ctx.replayed += info["steps"]
        ctx.case(c["tag"], nontrivial=info["moved"] > 1e-6 or bool(c.get("still")), sample={"config": c, "info": info} if len(ctx.samples) < 4 else None)
        if info["moved"] <= 1e-6 and not c.get("still"):
            raise MachineryError("vacuity: homogenization run %s did not change the profile" % c["tag"])
        if v["l"] != len(ev) + 1:
            ctx.violation("homog-model:trace-not-consumed", "run %s not consumed" % c["tag"], {"config": c})
        for f in v["fails"]:
            ctx.violation("homog-model:%s" % f[0], "HomogenizationModel run %s: %s violated at %s (observed %s, stated %s)" % (c["tag"], f[0], f[1], f[2], f[3]), {"config": c, "fail": f})


if __name__ == "__main__":
    main(run, "C04", "model_checking")
