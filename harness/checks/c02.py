"""C02 -- reported precipitate statistics are moments of the size distribution."""
from ..core import main
from ..kwn_checks import judge, canary


def run(ctx, replay=None):
    ctx.rule = ("Same runs as C01. Per step and phase the observer compares precipitateDensity / Ravg / volFrac with M0, M1/M0, r*v*M3 of the "
                "size distribution recorded at that step (allowance: one particle per class for the documented truncation) and, for Euler "
                "runs, M0 of the new distribution with M0 of the stored one plus nucRate*dt; KWN_Trace.tla requires eq / (lt or eq). "
                "Steps on which the grid is extended or re-meshed are included (small-grid and long runs force them).")
    ctx.assumptions = ["density law judged on Euler runs only (RK4 stage rates are not recorded)", "fixed tolerance table of harness/kwn_drv.py"]
    def corrupt(ev):
        for e in ev:
            if e["e"] == "step" and e["n"] == 20:
                e["ph"][0]["dens"] = "gt"
    canary(ctx, corrupt, "C02:density=M0")
    judge(ctx, ["C02:"])


if __name__ == "__main__":
    main(run, "C02", "model_checking")
