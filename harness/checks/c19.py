"""C19 -- stopping conditions stop the run when, and only when, they are met."""
import concurrent.futures as cf
from ..core import main
from ..tlc import run_tlc, MachineryError
from .. import traces as T

PREV_RULE = "guarded"     # "asbuilt" = before the fix of the start-of-run extrapolation (known_findings.json)


def _run(args):
    kind, cfg = args
    from .. import stop_drv as D
    return D.run_stop(cfg) if kind == "stop" else D.run_ttp(cfg)


def model_check(ctx):
    jobs = [("CondsA", 1, 4), ("CondsB", 2, 3), ("CondsC", 2, 3)] if ctx.tier == "quick" else [("CondsA", 1, 6), ("CondsB", 2, 4), ("CondsC", 2, 4)]
    for conds, nq, rows in jobs:
        cfg = T.write_cfg("stopping_mc", ["SPECIFICATION Spec", "CONSTANTS", "  Values = {0, 2, 4, 6, 8}", "  Conds <- %s" % conds, "  NQ = %d" % nq,
                                           "  MaxRows = %d" % rows, '  PrevRule = "%s"' % PREV_RULE,
                                           "INVARIANT StopsAtFirst", "INVARIANT LatchIsHistory", "INVARIANT TimeInsideStep",
                                           "PROPERTY LatchMonotone", "PROPERTY ResetClears"])
        res = run_tlc("MC_Stopping", cfg, deadlock=False, timeout=1500, tag="stopping_mc")
        ctx.add_tlc(res, "Stopping.tla %s, value lattice {0,2,4,6,8}, <=%d rows, reset" % (conds, rows))
        if res.violated:
            ctx.violation("stopping-mc:%s" % res.violated, "Stopping.tla (%s rule) violates %s" % (PREV_RULE, res.violated), {"trace": res.trace_text[:3000]})


def run(ctx, replay=None):
    from .. import stop_drv as D
    ctx.rule = ("(A) Stopping.tla: TLC explores every value trajectory on a 5-point lattice (<=3-6 rows) x thresholds on/between lattice points x both "
                "inequalities x or/and mixes of 1-3 conditions x reset; LatchMonotone, StopsAtFirst, LatchIsHistory, TimeInsideStep, ResetClears. "
                "(B) real PrecipitateModel runs (scripted thermodynamics) with 1-3 of the six condition classes, thresholds placed early / late / never / "
                "already-met-at-start from a reference trajectory, both inequalities, or/and mixes, 1-2 solve calls, both iterators, and TTPCalculator over "
                "2-3 temperatures: a spy condition snapshots every condition after every test; Stopping_Trace.tla keeps its own latches and requires the "
                "object's latch, the position of its reported time inside the step and on the interpolant, and the stop decision to agree.")
    ctx.assumptions = ["conditions are installed before the run starts", "times compared with rtol 1e-9/1e-12"]
    model_check(ctx)
    cfgs, ref = D.gen_configs(ctx.rng, ctx.tier)
    jobs = [("stop", c) for c in cfgs] + [("ttp", c) for c in D.gen_ttp(ctx.rng, ctx.tier, ref)]
    with cf.ProcessPoolExecutor(max_workers=14) as ex:
        results = list(ex.map(_run, jobs))
    traces = [r[0] for r in results]
    reached, res = T.validate("Stopping_Trace", ["CONSTANTS", '  PrevRule = "%s"' % PREV_RULE], traces, "stop_tr")
    ctx.add_tlc(res, "Stopping_Trace over %d runs" % len(traces))
    if res.violated or reached is None:
        raise MachineryError("Stopping_Trace failed: %s" % res.violated)
    stopped_early = 0
    for (kind, cfg), (ev, info), v in zip(jobs, results, reached):
        ctx.replayed += info["steps"]
        met = any(e.get("e") == "step" and any(c["sat"] for c in e["c"]) for e in ev)
        stopped_early += 1 if met else 0
        ctx.case(cfg["tag"], nontrivial=met, sample={"kind": kind, "stop": cfg["stop"], "info": info} if len(ctx.samples) < 3 else None)
        if v["l"] != len(ev) + 1:
            ctx.violation("stop:%s:trace-not-consumed" % kind, "trace %s not consumed (event %d of %d) %s" % (cfg["tag"], v["l"], len(ev), info.get("error")), {"config": cfg, "info": info})
        for clause, n in v["fails"]:
            kinds = sorted(set(s[0] for s in cfg["stop"]))
            ctx.violation("stop:%s:%s" % (kind, clause), "run %s: %s fails at row %d (%s) %s" % (cfg["tag"], clause, n, kinds, info.get("error") or ""),
                          {"config": cfg, "clause": clause, "row": n, "info": info})
    # TTPCalculator relies on reset(): a solved-reset-solved model must reproduce a fresh model's run
    from .. import c20_drv
    pairs = []
    for it in ("euler", "rk4"):
        for tag, extra in (("iso", {}), ("ramp", dict(se=1e-5, temp=("array", [0, 30.0 / 3600], [1000, 1006])))):
            pairs.append(("reset-%s-%s" % (tag, it), c20_drv.reset_pair(dict(phases=[dict(name="beta", gamma=0.05)], D=1e-16, calls=[(30.0, 0.02)], iter=it, **extra))))
    rreached, rres = T.validate("Equiv", [], [p[1][0] for p in pairs], "c19_reset")
    ctx.add_tlc(rres, "Equiv over %d solve-reset-solve pairs" % len(pairs))
    if rres.violated or rreached is None:
        raise MachineryError("Equiv failed (reset pairs)")
    for (lab, (ev, info)), v in zip(pairs, rreached):
        ctx.replayed += info["steps"]
        ctx.case(lab, nontrivial=info["steps"] > 5)
        if v["l"] != len(ev) + 1 or v["fails"]:
            ctx.violation("stop:reset-reproduces-fresh-run:%s" % ",".join(sorted(f[0] for f in v["fails"]))[:60], "pair %s differs: %s" % (lab, v["fails"][:4]), {"pair": lab, "fails": v["fails"]})
    if stopped_early < len(jobs) // 4:
        raise MachineryError("vacuity: only %d of %d runs ever met a condition" % (stopped_early, len(jobs)))
    ctx.extra["runs_with_condition_met"] = stopped_early


if __name__ == "__main__":
    main(run, "C19", "model_checking")
