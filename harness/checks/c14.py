"""C14 -- nucleation quantities obey classical nucleation theory for every site type (partial claim, DESIGN 3/C14)."""
from ..core import main
from ..tlc import run_tlc, run_apalache, MachineryError
from ..kwn_checks import judge, canary
from .. import traces as T


def run(ctx, replay=None):
    from .. import c14_drv as D
    ctx.rule = ("(k) NucParams.tla: TLC explores every history of <= 5 setter/read operations on the cached geometric factors (ReadIsCurrent, CacheNeverStale); Apalache shows the same invariant inductive for histories of any length (APA_NucParams.tla, with a negative control); "
                "all read-set-read triples and seeded histories of 3-7 operations are executed on NucleationBarrierParameters (directly and through "
                "PrecipitateParameters.gamma/validate) and each read is compared with a freshly built object. (c,a) model level: every step of the precipitation "
                "suite must record rate = 0 when the driving force is <= 0 (KWN_Trace.tla); function level: sign/zero/finite classes of barrier, Zeldovich, "
                "impingement, incubation, rate over dG in {<0, 0, >0...}, scalar vs array, Rcrit >= Rmin, incubation factor in [0,1] and rising, rate "
                "non-decreasing in dG. (j) available sites non-negative and non-increasing with occupation for 5 site types x 2 competing phases. "
                "Clemm-Fisher identities on a k-grid. Relations are judged by Relations.tla. (pools, extension) SitePools.tla: the site pools are derived from molar volume, "
                "composition, grain size and dislocation density, cached, and the bulk pool can be overridden; TLC explores all histories of setters and reads (ReadIsCurrent, "
                "CacheNeverStale, UserBulkKept); all read-set-read triples and seeded histories on real MatrixParameters objects are trace-validated (SitePools_Trace.tla). "
                "(configuration, extension) ModelConfig.tla: the configuration of a PrecipitateModel as one state machine (setters in any order, reset()+setup(), admissible "
                "site/shape combinations); TLC explores all histories (SetupIsCurrent, AlwaysAdmissible, NonInterference); histories on real models are trace-validated "
                "(ModelConfig_Trace.tla): after every setup the pool of sites of the chosen site type and the nucleus factors are those of the inputs in force.")
    ctx.assumptions = ["real-valued identities/monotonicities enter as lt/eq/gt (observation level, see DESIGN 3/C14); rtol 1e-9"]
    res = run_tlc("NucParams", "MC_NucParams.cfg", deadlock=False, timeout=900)
    ctx.add_tlc(res, "NucParams.tla histories <= 5")
    if res.violated:
        ctx.tlc_violation(res, "NucParams")
    # unbounded histories: the cache invariant is inductive (Apalache), and is NOT with a setter that forgets to invalidate
    a0 = run_apalache("APA_NucParams", cinit="CInit", init="Init", inv="IndInv", length=0, tag="nuc0")
    a1 = run_apalache("APA_NucParams", cinit="CInit", init="IndInit", inv="IndInv", length=1, tag="nuc1")
    a2 = run_apalache("APA_NucParams", cinit="CInit", init="IndInit", next_="NextBroken", inv="IndInv", length=1, tag="nuc2")
    ctx.extra["apalache"] = {"Init=>IndInv": a0, "IndInv/\\Next=>IndInv'": a1, "negative control (setter without invalidation)": a2}
    if a2 != "error":
        raise MachineryError("Apalache negative control accepted a setter that does not invalidate the cache")
    if a0 != "ok" or a1 != "ok":
        ctx.violation("nucparams:inductive-invariant", "cache invariant of NucParams is not inductive (%s, %s)" % (a0, a1), {"apalache": [a0, a1]})
    def corrupt(ev):
        for e in ev:
            if e["e"] == "step":
                e["ph"][0]["dgsign"] = -1; e["ph"][0]["ratezero"] = False
                return
    canary(ctx, corrupt, "C14:rate=0-when-dG<=0")
    judge(ctx, ["C14:"])
    sites_part(ctx, D)
    pools_part(ctx, D)
    from ..cfg_part import config_part
    config_part(ctx, ["C14:"], "c14")
    hist = D.gen_factor_histories(ctx.rng, ctx.tier)
    traces = [D.factor_history(h, "direct" if i % 2 == 0 else "precipitate") for i, h in enumerate(hist)]
    labels = ["factors:%s" % [o[0] if o[0] != "read" else o[1] for o in h] for h in hist]
    mh = D.gen_model_factor_histories()
    traces += [D.model_factor_history(h) for h in mh]
    labels += ["model-factors:%s" % [(o[0], o[1]) for o in h] for h in mh]
    traces += [D.nucleation_relations(), D.site_accounting(), D.limit_relations(), D.zero_driving_force_relations(), D.steady_state_relations(), D.incubation_relations(ctx.rng, ctx.tier)]
    labels += ["nucleation-relations", "site-accounting", "limit-of-admissible-ratio", "zero-driving-force", "steady-state-function", "non-isothermal-incubation"]
    reached, r2 = T.validate("Relations", [], traces, "c14_rel")
    ctx.add_tlc(r2, "Relations over %d traces" % len(traces))
    if r2.violated or reached is None:
        raise MachineryError("Relations validation failed")
    for lab, ev, v in zip(labels, traces, reached):
        n = sum(1 for e in ev if e["e"] == "rel")
        ctx.replayed += n
        ctx.case(lab, nontrivial=n > 0, sample={"trace": lab, "events": ev[1:3]} if len(ctx.samples) < 4 else None)
        if v["l"] != len(ev) + 1:
            ctx.violation("c14:trace-not-consumed", "%s not consumed" % lab, {"trace": lab})
        for f in v["fails"]:
            ctx.violation("c14:%s:%s" % (f[0], f[1].split(",")[0]), "%s: %s violated at %s (observed %s, stated %s)" % (lab[:80], f[0], f[1], f[2], f[3]), {"trace": lab, "fail": f})


POOLMODE = "fixed"      # "asbuilt": a change of the matrix molar volume does not invalidate the cached pools (before the repair)


def pools_part(ctx, D):
    """the pools themselves follow the matrix parameters: SitePools.tla model-checked, real MatrixParameters objects trace-validated"""
    import copy
    consts = ["CONSTANTS", "  Vms = {1, 2}", "  X0s = {1, 2}", "  Grains = {1, 2}", "  Disls = {1, 2}", "  Bulks = {7}"]
    cfg = T.write_cfg("sitepools_mc", ["SPECIFICATION Spec"] + consts + ["  MaxOps = %d" % (5 if ctx.tier == "quick" else 6), '  Mode = "%s"' % POOLMODE,
                                       "INVARIANT ReadIsCurrent", "INVARIANT CacheNeverStale", "PROPERTY UserBulkKept"])
    res = run_tlc("SitePools", cfg, deadlock=False, timeout=1500)
    ctx.add_tlc(res, "SitePools.tla: all histories of setters and reads")
    if res.violated:
        ctx.tlc_violation(res, "SitePools")
    cfgv = T.write_cfg("sitepools_vac", ["SPECIFICATION Spec"] + consts + ["  MaxOps = 4", '  Mode = "asbuilt"', "INVARIANT CacheNeverStale"])
    rv = run_tlc("SitePools", cfgv, deadlock=False, timeout=600)
    if rv.violated != "CacheNeverStale":
        raise MachineryError("vacuity: the as-built volume setter does not violate CacheNeverStale in SitePools.tla")
    hist = D.gen_pool_histories(ctx.rng, ctx.tier)
    traces = [D.pool_history(h, grain0=1 + i % 2, disl0=1 + (i // 2) % 2) for i, h in enumerate(hist)]
    can = copy.deepcopy(next(t for t in traces if any(e.get("op") == "read" and e.get("arg") == "disl" for e in t[1:])))
    for e in can[1:]:
        if e.get("op") == "read" and e.get("arg") == "disl":
            e["got"] = [3 - e["got"][0] if e["got"][0] in (1, 2) else 1, e["got"][1]]
            break
    reached, r = T.validate("SitePools_Trace", consts + ["  MaxOps = 0", '  Mode = "%s"' % POOLMODE], traces + [can], "c14_pools")
    ctx.add_tlc(r, "SitePools_Trace over %d histories" % len(traces))
    if r.violated or reached is None:
        raise MachineryError("SitePools_Trace validation failed")
    if not reached[-1]["fails"]:
        raise MachineryError("binding self-test failed: corrupted pool read accepted")
    for h, ev, v in zip(hist, traces, reached):
        ctx.replayed += len(ev) - 1
        ctx.case(["pools"] + [list(o) for o in h], nontrivial=any(e.get("op") == "read" for e in ev[1:]), sample={"history": h, "events": ev[1:4]} if len(ctx.samples) < 7 else None)
        if v["l"] != len(ev) + 1:
            ctx.violation("c14:pools-trace-not-consumed", "pool history %s not consumed at event %d" % (h, v["l"]), {"history": h, "events": ev})
        for f in v["fails"]:
            ctx.violation("c14:pools:%s" % f[0], "pool history %s: clause %s fails at call %d" % (h, f[0], f[1] - 1), {"history": h, "events": ev, "fail": f})


def sites_part(ctx, D):
    """(j) pools per kind of site: Sites.tla model-checked, then every snapshot of the real _calcNucleationSites judged by Sites_Trace.tla"""
    import copy
    deep = ctx.tier != "quick"
    cfg = T.write_cfg("sites_mc", ["SPECIFICATION Spec", "CONSTANTS", "  Phases = {1, 2}",      # (three phases x four kinds: 1.4e8 states, 22 min on an idle machine -- too close to any sensible timeout)
                                   '  Kinds = {"bulk", "dislocations", "grain corners"%s}' % (', "grain boundaries"' if deep else ""),
                                   "  Pools = {0, 3}", "  Steps = {0, 2}", "  MaxOps = %d" % (2 if not deep else 2),
                                   "INVARIANT NeverNegative", "INVARIANT OccupationDecreases", "INVARIANT OtherKindsUntouched",
                                   "INVARIANT SharedPool", "INVARIANT Exhausted"])
    res = run_tlc("Sites", cfg, deadlock=False, timeout=1500)
    ctx.add_tlc(res, "Sites.tla: all histories of <= 2 occupy/dissolve/re-site operations")
    if res.violated:
        ctx.tlc_violation(res, "Sites")
    for vac in ("VacSomeExhausted", "VacChildGains"):
        cfgv = T.write_cfg("sites_vac", ["SPECIFICATION Spec", "CONSTANTS", "  Phases = {1, 2}", '  Kinds = {"bulk", "dislocations"}',
                                         "  Pools = {0, 3}", "  Steps = {0, 2}", "  MaxOps = 2", "INVARIANT " + vac])
        rv = run_tlc("Sites", cfgv, deadlock=False, timeout=600)
        if not rv.violated:
            raise MachineryError("vacuity: Sites.tla never reaches the situation %s describes" % vac)
    labels, traces = D.site_snapshots(ctx.tier)
    can = copy.deepcopy(traces[0])
    can[3]["obs"][1] += 40
    reached, r = T.validate("Sites_Trace", [], traces + [can], "c14_sites")
    ctx.add_tlc(r, "Sites_Trace over %d snapshot sequences" % len(traces))
    if r.violated or reached is None:
        raise MachineryError("Sites_Trace validation failed")
    if not reached[-1]["fails"]:
        raise MachineryError("binding self-test failed: corrupted site snapshot accepted")
    for lab, ev, v in zip(labels, traces, reached):
        n = sum(1 for e in ev if e["e"] == "sites")
        ctx.replayed += n
        exhausted = any(e["e"] == "sites" and min(e["obs"]) == 0 for e in ev)
        ctx.case(lab, nontrivial=exhausted, sample={"trace": lab, "events": ev[2:4]} if len(ctx.samples) < 6 else None)
        if v["l"] != len(ev) + 1:
            ctx.violation("c14:trace-not-consumed", "%s not consumed" % lab, {"trace": lab})
        for f in v["fails"]:
            ctx.violation("c14:%s:%s" % (f[0], lab.split(" ")[0]), "%s: %s violated first at %s" % (lab, f[0], f[1]), {"trace": lab, "fail": f, "events": ev})


if __name__ == "__main__":
    main(run, "C14", "model_checking")
