"""C13 -- temperature schedules are followed faithfully."""
from ..core import main
from ..tlc import run_tlc, MachineryError
from ..kwn_checks import judge, canary, judge_pairs
from .. import traces as T


def refresh_rule_mc(ctx):
    from .. import kwn_suite as S
    base = ["SPECIFICATION Spec", "CONSTANTS", '  RefreshMode = "%s"' % S.REFRESH_MODE, "  MaxTempChange = 2", "  Deltas <- DeltasDef",
            "  MaxSteps = %d" % (6 if ctx.tier == "quick" else 9), "  Tlo = 0", "  Thi = 12"]
    cfg = T.write_cfg("kwn_refresh", base + ["INVARIANT LookupFresh", "INVARIANT AccumulatorExact"])
    res = run_tlc("MC_KWN", cfg, deadlock=False, timeout=900, tag="kwn_refresh")
    ctx.add_tlc(res, "MC_KWN: refresh rule over all temperature paths (deltas -3..3 K, limit 2 K)")
    if res.violated:
        ctx.tlc_violation(res, "MC_KWN refresh rule")
    vac = T.write_cfg("kwn_refresh_vac", base + ["PROPERTY NeverRebuilds"])
    rv = run_tlc("MC_KWN", vac, deadlock=False, timeout=600, tag="kwn_refresh_vac")
    if rv.violated != "NeverRebuilds":
        raise MachineryError("vacuity: the refresh rule never rebuilds in the model")


def run(ctx, replay=None):
    ctx.rule = ("(A) MC_KWN.tla: the lookup-refresh rule of _growthRateBinary explored by TLC over every temperature path on an integer lattice "
                "(heating, cooling, holds, reversals, slow = 1 K/step with a 2 K limit): LookupFresh and AccumulatorExact are invariants. "
                "(B) non-isothermal runs (slow ramp, heat-cool, function-specified, fast RK4 ramp, ramp above the solvus) with a scripted "
                "thermodynamics object that logs the temperature of every table it is asked to build: KWN_Trace.tla keeps the per-phase table "
                "stamp, predicts with the same Refresh operator when a rebuild is due, and requires T_row = schedule(t_row), "
                "|T_row - stamp| <= maxTempChange, a full rebuild at T_row when due, and the accumulator value. "
                "(C) equivalent specifications (constant / break points / function, constructor object / setter) are run as pairs and compared step by step.")
    ctx.assumptions = ["temperatures compared in milli-kelvin; accumulator within 2 mK"]
    def corrupt(ev):
        for e in ev:
            if e["e"] == "step" and e["n"] == 20:
                e["Tsched"] = "gt"
    canary(ctx, corrupt, "C13:T=schedule(t)")
    refresh_rule_mc(ctx)
    judge(ctx, ["C13:"])
    from .. import kwn_pairs as P
    judge_pairs(ctx, [(a, b, None, 0.0, [], label) for (a, b, label) in P.temperature_pairs()], "tempspec")


if __name__ == "__main__":
    main(run, "C13", "model_checking")
