"""C13 -- temperature schedules are followed faithfully."""
from ..core import main
from ..tlc import run_tlc, MachineryError
from ..kwn_checks import judge, canary, judge_pairs
from .. import traces as T


def refresh_rule_mc(ctx):
    from .. import kwn_suite as S
    base = ["SPECIFICATION Spec", "CONSTANTS", '  RefreshMode = "%s"' % S.REFRESH_MODE, "  MaxTempChange = 2", "  Deltas <- DeltasDef",
            "  MaxSteps = %d" % (6 if ctx.tier == "quick" else 9), "  Tlo = 0", "  Thi = 12"]
    cfg = T.write_cfg("kwn_refresh", base + ["INVARIANT LookupFresh", "INVARIANT AccumulatorExact"])
    res = run_tlc("MC_KWN", cfg, deadlock=False, timeout=900, tag="kwn_refresh")
    ctx.add_tlc(res, "MC_KWN: refresh rule over all temperature paths (deltas -3..3 K, limit 2 K)")
    if res.violated:
        ctx.tlc_violation(res, "MC_KWN refresh rule")
    vac = T.write_cfg("kwn_refresh_vac", base + ["PROPERTY NeverRebuilds"])
    rv = run_tlc("MC_KWN", vac, deadlock=False, timeout=600, tag="kwn_refresh_vac")
    if rv.violated != "NeverRebuilds":
        raise MachineryError("vacuity: the refresh rule never rebuilds in the model")


def run(ctx, replay=None):
    ctx.rule = ("(A) MC_KWN.tla: the lookup-refresh rule of _growthRateBinary explored by TLC over every temperature path on an integer lattice "
                "(heating, cooling, holds, reversals, slow = 1 K/step with a 2 K limit): LookupFresh and AccumulatorExact are invariants. "
                "(B) non-isothermal runs (slow ramp, heat-cool, function-specified, fast RK4 ramp, ramp above the solvus) with a scripted "
                "thermodynamics object that logs the temperature of every table it is asked to build: KWN_Trace.tla keeps the per-phase table "
                "stamp, predicts with the same Refresh operator when a rebuild is due, and requires T_row = schedule(t_row), "
                "|T_row - stamp| <= maxTempChange, a full rebuild at T_row when due, and the accumulator value. "
                "(C) equivalent specifications (constant / break points / function, constructor object / setter) are run as pairs and compared step by step. "
                "(D) diffusion models (SinglePhaseModel with a backend that logs the temperature of every diffusivity request): every request of a step is made at the "
                "schedule's value at one of the step's stage times, the first at the step's start; schedules that rise, fall, start after zero, and runs that go on past the last break point; "
                "constructor / setter / equivalent function give the same run (Relations.tla).")
    ctx.assumptions = ["temperatures compared in milli-kelvin; accumulator within 2 mK"]
    def corrupt(ev):
        for e in ev:
            if e["e"] == "step" and e["n"] == 20:
                e["Tsched"] = "gt"
    canary(ctx, corrupt, "C13:T=schedule(t)")
    refresh_rule_mc(ctx)
    judge(ctx, ["C13:"])
    from .. import kwn_pairs as P
    judge_pairs(ctx, [(a, b, None, 0.0, [], label) for (a, b, label) in P.temperature_pairs()], "tempspec")
    diffusion_part(ctx)


def diffusion_part(ctx):
    """(D) the diffusion models: every diffusivity request of a step is made at the schedule's value at one of the step's stage times"""
    from .. import difftemp_drv as D
    ev = D.relations(ctx.tier)
    reached, r = T.validate("Relations", [], [ev], "c13_difftemp")
    ctx.add_tlc(r, "Relations over the diffusion temperature runs")
    if r.violated or reached is None:
        raise MachineryError("Relations validation failed (diffusion temperature)")
    n = sum(1 for e in ev if e["e"] == "rel")
    ctx.replayed += n
    ctx.case("diffusion-temperature", nontrivial=n > 100, sample={"events": ev[1:3]})
    if n <= 100 and ev[-1]["e"] != "exception":
        raise MachineryError("vacuity: diffusion temperature runs produced %d relations" % n)
    if reached[0]["l"] != len(ev) + 1:
        ctx.violation("difftemp:trace-not-consumed", "diffusion temperature relations not consumed", {})
    for f in reached[0]["fails"]:
        ctx.violation("difftemp:%s" % f[0], "diffusion model: %s violated at %s (observed %s, stated %s)" % (f[0], f[1], f[2], f[3]), {"fail": f})


if __name__ == "__main__":
    main(run, "C13", "model_checking")
