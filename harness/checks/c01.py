"""C01 -- precipitation conserves solute between matrix and precipitates."""
from ..core import main
from ..kwn_checks import judge, canary


def run(ctx, replay=None):
    ctx.rule = ("PrecipitateModel runs with scripted (self-consistent linear) thermodynamics: isothermal/non-isothermal, 1-2 phases, bulk and "
                "grain-boundary nuclei, molar-volume ratios, both iterators, 1-2 solve calls, dissolution, re-meshing small grids, "
                "backend faults; an observer (coupling model) logs after every step the moment sums the property names, computed from "
                "the recorded size distribution and the interfacial-composition table in force, and compares them with the recorded "
                "composition / volFrac / fconc; KWN_Trace.tla accepts a step only if x0 = (1-sum fv)*x + sum fconc (or the documented clamp) and "
                "fconc equals the weighted third moment. Distinct = configuration; non-trivial = more than 5 steps.")
    ctx.assumptions = ["comparison under the fixed tolerance table of harness/kwn_drv.py (rtol 1e-8 for the balance, one particle per class "
                       "for the documented truncation)", "scripted thermodynamics above the kawin thermodynamics API; pycalphad-backed runs not included in this tier"]
    def corrupt(ev):
        for e in ev:
            if e["e"] == "step" and e["n"] == 20:
                e["mb"][0]["cmp"] = "lt"
    canary(ctx, corrupt, "C01:mass-balance")
    judge(ctx, ["C01:", "C02:volFrac"])   # the balance is only meaningful with the fraction it uses being the third moment
    from ..cfg_part import config_part
    config_part(ctx, ["C01:"], "c01")      # ModelConfig.tla: setters in any order, reset()+setup(): the derived data are those of the inputs in force


if __name__ == "__main__":
    main(run, "C01", "model_checking")
