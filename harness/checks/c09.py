"""C09 -- thermodynamic queries are pure; the composition cache is sound."""
from ..core import main
from ..tlc import run_tlc, MachineryError
from .. import traces as T

HT_CONSTS = ["CONSTANTS", "  Points = {}", "  Precisions = {}", "  MaxOps = 0"]


def hashtable_part(ctx):
    from .. import hash_drv as H
    msg = H.selfcheck()
    if msg:
        raise MachineryError("hash domain self-check: " + msg)
    res = run_tlc("MC_HashTable", "MC_HashTable.cfg", deadlock=False, timeout=900,
                  extra=None)
    ctx.add_tlc(res, "HashTable exhaustive histories <= 4 (quick) over 7 points, 4 precisions")
    if res.violated:
        ctx.tlc_violation(res, "HashTable")
    hist = H.gen(ctx.rng, ctx.tier)
    trs = [H.run_history(h) for h in hist]
    import copy
    can = copy.deepcopy(next(t for t in trs if any(e["e"] == "get" and e["hit"] for e in t)))
    for e in can:
        if e["e"] == "get" and e["hit"]:
            e["v"] += 1
            break
    reached, r2 = T.validate("HashTable_Trace", HT_CONSTS, trs + [can], "hashtable_tr", invariants=["HitSound", "OneEntryPerKey"],
                             properties=["DisabledMisses"])
    ctx.add_tlc(r2, "HashTable_Trace (%d histories)" % len(trs))
    if r2.violated:
        ctx.violation("hash-trace-invariant:" + r2.violated, "invariant violated on implementation trace", {"trace": r2.trace_text[:4000]})
        return
    if reached[-1] == len(can) + 1:
        raise MachineryError("binding self-test failed: corrupted HashTable trace accepted")
    bad = dict(T.rejected(trs, reached[:-1]))
    for i, (h, tr) in enumerate(zip(hist, trs)):
        ctx.replayed += len(tr) - 1
        ctx.case({"h": tr}, nontrivial=any(e["e"] == "get" for e in tr),
                 sample={"history": tr} if len(ctx.samples) < 2 else None)
        if i in bad:
            at = bad[i]
            ev = tr[at - 1]
            # classify by the last control operation before the rejected event (call site of the defect)
            prior = [e["e"] + (":%s" % e.get("b") if e["e"] == "enable" else "") for e in tr[1:at - 1] if e["e"] in ("enable", "sens")]
            ctx.violation("hashtable:%s:after-%s" % (ev["e"], prior[-1] if prior else "none"),
                          "HashTable trace rejected at event %d %r (history %r)" % (at, ev, [e["e"] for e in tr[1:at]]),
                          {"history": tr, "rejected_at": at})


def model_cache_part(ctx):
    """the cache as SinglePhaseModel uses it: every node of every flux evaluation is looked up under its own key"""
    from .. import hash_drv as H
    import copy
    hist = H.gen_model(ctx.rng, ctx.tier)
    jobs = [(h, 1 + (i % 2)) for i, h in enumerate(hist)]
    trs = [H.model_history(h, nsol=n) for h, n in jobs]
    can = copy.deepcopy(next(t for t in trs if sum(1 for e in t if e["e"] == "get") > 3))
    k = [i for i, e in enumerate(can) if e["e"] == "get"][2]
    del can[k]              # one node never looked up
    reached, r = T.validate("DiffCache_Trace", HT_CONSTS, trs + [can], "diffcache_tr", invariants=["HitSound", "OneEntryPerKey"])
    ctx.add_tlc(r, "DiffCache_Trace (%d model histories)" % len(trs))
    if r.violated:
        ctx.violation("diffcache-invariant:" + r.violated, "invariant violated on a model-level cache trace", {"trace": r.trace_text[:4000]})
        return
    if reached[-1] == len(can) + 1:
        raise MachineryError("binding self-test failed: a model trace with a node that was never looked up was accepted")
    bad = dict(T.rejected(trs, reached[:-1]))
    nhit = 0
    for i, ((h, n), tr) in enumerate(zip(jobs, trs)):
        ctx.replayed += len(tr) - 1
        nhit += sum(1 for e in tr if e["e"] == "get" and e["hit"])
        ctx.case({"model-history": h, "solutes": n}, nontrivial=True, sample={"history": h, "events": tr[:8]} if i < 1 else None)
        if i in bad:
            at = bad[i]
            ev = tr[at - 1] if at - 1 < len(tr) else {"e": "end"}
            ctx.violation("diffcache:%s" % ev["e"], "model-level cache trace rejected at event %d %r: the node in turn was not looked up under its own composition and temperature, "
                          "or was served without a hit or a call (history %r)" % (at, ev, h), {"history": h, "events": tr, "rejected_at": at})
    if nhit == 0:
        raise MachineryError("vacuity: no cache hit in the model-level histories")


def thermo_part(ctx):
    from .. import thermo_drv as TD
    for system, alpha in (("alzr", TD.binary_alphabet()), ("nicral", TD.ternary_alphabet()), ("fecrni", TD.two_phase_alphabet())):
        searches = TD.search_alphabet() if system == "nicral" else []
        under = TD.undersaturated_df_alphabet() if system == "nicral" else []
        memo = TD.memo_answers(system, alpha + searches + under)
        alpha = TD.stable_alphabet(alpha, memo)
        hist = TD.gen_histories(ctx.rng, alpha, ctx.tier)
        if system == "nicral":
            # undersaturated compositions with a search direction (what the precipitation model does during dissolution) between stable queries
            hist = hist + TD.search_histories(alpha, [q for q in searches if memo[q] is not None])
            # driving force below the solvus (tangent point collapses, fall-back to sampling) before supersaturated queries, caches kept
            hist = hist + TD.df_order_histories(alpha, [u for u in under if memo[u] is not None and memo[u][0] is not None])
            if not any(memo[q] is not None for q in searches):
                raise MachineryError("vacuity: no search query found a two-phase equilibrium")
            # curvature / impingement queries in the single-phase region (fall-back to the previous result) between stable queries, caches kept
            hist = hist + TD.aside_histories(alpha, [((0.01, 0.01), 1073.15)] + ([((0.02, 0.01), 1073.15)] if ctx.tier != "quick" else []))
        trs = [TD.run_history(system, h, memo) for h in hist]
        if system == "alzr":
            hist = hist + [[("switch-method",)]]
            trs = trs + [TD.method_switch_history()]
        import copy
        can = copy.deepcopy(next(t for t in trs if any(e["e"] == "query" for e in t)))
        for e in can:
            if e["e"] == "query":
                e["vsmemo"] = "gt"
                break
        reached, res = T.validate("ThermoCache", [], trs + [can], "thermocache_" + system)
        ctx.add_tlc(res, "ThermoCache over %d query histories (%s, real pycalphad)" % (len(trs), system))
        if res.violated or reached is None:
            raise MachineryError("ThermoCache validation failed")
        if not reached[-1]["fails"]:
            raise MachineryError("binding self-test failed: corrupted query history accepted")
        for h, ev, v in zip(hist, trs, reached):
            ctx.replayed += len(ev) - 1
            ctx.case({"sys": system, "h": [list(map(str, o)) for o in h]}, nontrivial=len(ev) > 2,
                     sample={"system": system, "history": [list(map(str, o)) for o in h]} if len(ctx.samples) < 5 else None)
            if v["l"] != len(ev) + 1:
                ctx.violation("thermo:%s:trace-not-consumed" % system, "history not consumed: %s" % ev[min(v["l"], len(ev)) - 1], {"history": [list(map(str, o)) for o in h]})
            for clause, at in v["fails"]:
                e = ev[at - 1]
                ctx.violation("thermo:%s:%s:%s" % (system, clause, e.get("kind", e.get("e"))), "%s history %s: %s at event %d %s" %
                              (system, [o[1] if len(o) > 1 else o[0] for o in h], clause, at, e), {"history": [list(map(str, o)) for o in h], "event": e})


def run(ctx, replay=None):
    ctx.rule = ("ThermoCache.tla: on the real Al-Zr (binary), Ni-Cr-Al (ternary) and Fe-Cr-Ni (two phases with mobility data: diffusivities of the matrix and of the second phase) databases every ordered pair of queries (driving force, interfacial "
                "composition alone and inside an array, interdiffusivity, tracer diffusivity, curvature factors, impingement) plus seeded histories of 3-6 "
                "queries with removeCache on/off and clearCache calls is executed on one long-lived object; each answer must equal the answer of an object "
                "with empty caches (rtol 1e-6), repeats must agree, arguments must be untouched, alone = inside an array. "
                "HashTable.tla: TLC explores all enable/precision/clear/add/retrieve histories up to length 4; the real HashTable "
                "executes all length-3 histories over a reduced alphabet plus seeded length 4-10 histories (binary and ternary "
                "points, precisions 1,2,3,7 incl. int32-overflowing temperature keys) and HashTable_Trace.tla accepts each event "
                "only if hit/miss, the returned value and the table size equal the specification's. "
                "DiffCache_Trace.tla: the cache as SinglePhaseModel uses it -- flux evaluations on profiles with flat stretches under per-node temperatures "
                "(iso / gradient / temperatures 0.5 K apart), one and two solutes, interleaved with useCache / setHashSensitivity / clearCache; the get/add "
                "events of the model's own table and the calls reaching the thermodynamics object must be, node by node and in order, what HashTable.tla "
                "allows: every node looked up under its own key, served by a hit or by a call at exactly its composition and temperature.")
    ctx.assumptions = ["domain points have float keys equal to their exact keys (self-checked every run)",
                       "curvature/impingement queries restricted to points with positive driving force (documented fall-back elsewhere)",
                       "answers compared with rtol 1e-6 (measured solver scatter <= 1e-9)"]
    hashtable_part(ctx)
    model_cache_part(ctx)
    thermo_part(ctx)


if __name__ == "__main__":
    main(run, "C09", "model_checking")
