"""C09 -- thermodynamic queries are pure; the composition cache is sound."""
from ..core import main
from ..tlc import run_tlc, MachineryError
from .. import traces as T

HT_CONSTS = ["CONSTANTS", "  Points = {}", "  Precisions = {}", "  MaxOps = 0"]


def hashtable_part(ctx):
    from .. import hash_drv as H
    msg = H.selfcheck()
    if msg:
        raise MachineryError("hash domain self-check: " + msg)
    res = run_tlc("MC_HashTable", "MC_HashTable.cfg", deadlock=False, timeout=900,
                  extra=None)
    ctx.add_tlc(res, "HashTable exhaustive histories <= 4 (quick) over 7 points, 4 precisions")
    if res.violated:
        ctx.tlc_violation(res, "HashTable")
    hist = H.gen(ctx.rng, ctx.tier)
    trs = [H.run_history(h) for h in hist]
    import copy
    can = copy.deepcopy(next(t for t in trs if any(e["e"] == "get" and e["hit"] for e in t)))
    for e in can:
        if e["e"] == "get" and e["hit"]:
            e["v"] += 1
            break
    reached, r2 = T.validate("HashTable_Trace", HT_CONSTS, trs + [can], "hashtable_tr", invariants=["HitSound", "OneEntryPerKey"],
                             properties=["DisabledMisses"])
    ctx.add_tlc(r2, "HashTable_Trace (%d histories)" % len(trs))
    if r2.violated:
        ctx.violation("hash-trace-invariant:" + r2.violated, "invariant violated on implementation trace", {"trace": r2.trace_text[:4000]})
        return
    if reached[-1] == len(can) + 1:
        raise MachineryError("binding self-test failed: corrupted HashTable trace accepted")
    bad = dict(T.rejected(trs, reached[:-1]))
    for i, (h, tr) in enumerate(zip(hist, trs)):
        ctx.replayed += len(tr) - 1
        ctx.case({"h": tr}, nontrivial=any(e["e"] == "get" for e in tr),
                 sample={"history": tr} if len(ctx.samples) < 2 else None)
        if i in bad:
            at = bad[i]
            ev = tr[at - 1]
            # classify by the last control operation before the rejected event (call site of the defect)
            prior = [e["e"] + (":%s" % e.get("b") if e["e"] == "enable" else "") for e in tr[1:at - 1] if e["e"] in ("enable", "sens")]
            ctx.violation("hashtable:%s:after-%s" % (ev["e"], prior[-1] if prior else "none"),
                          "HashTable trace rejected at event %d %r (history %r)" % (at, ev, [e["e"] for e in tr[1:at]]),
                          {"history": tr, "rejected_at": at})


def run(ctx, replay=None):
    ctx.rule = ("HashTable.tla: TLC explores all enable/precision/clear/add/retrieve histories up to length 4; the real HashTable "
                "executes all length-3 histories over a reduced alphabet plus seeded length 4-10 histories (binary and ternary "
                "points, precisions 1,2,3,7 incl. int32-overflowing temperature keys) and HashTable_Trace.tla accepts each event "
                "only if hit/miss, the returned value and the table size equal the specification's.")
    ctx.assumptions = ["domain points have float keys equal to their exact keys (self-checked every run)"]
    hashtable_part(ctx)


if __name__ == "__main__":
    main(run, "C09", "model_checking")
