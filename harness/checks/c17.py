"""C17 -- homogenized mobilities respect classical bounds and address phases by name."""
from fractions import Fraction as Fr
from ..core import main, close
from ..tlc import run_tlc, eval_parallel, MachineryError
from .. import traces as T


def run(ctx, replay=None):
    from .. import homog_drv as D
    ctx.rule = ("(A) MC_Homogenization.tla: TLC checks WienerL <= HashinL <= HashinU <= WienerU within [min, max], Lab(1) = WienerU, Lab(2) <= WienerU, "
                "single-phase identity and invariance under every permutation of the phase list for all mobility tables x fraction vectors on the "
                "lattice, 1-3 (thorough 4) phases. (B) the five rule functions are called on the lattice (incl. undefined entries) and must equal "
                "Homogenization.tla's exact value and leave their arguments untouched. (C) computeHomogenizationFunction with a scripted equilibrium "
                "whose stable-phase list comes in arbitrary order/subsets of the database list: every post-process mode (by name), evaluated twice and "
                "again after switching the option, cache on/off, must equal the specification's fresh evaluation of the named semantics.")
    ctx.assumptions = ["mobilities below 1/3 (the substitution of the largest float for undefined entries overflows otherwise)",
                       "scripted equilibrium object in place of pycalphad"]
    # (A)
    for nph in ((1, 2, 3) if ctx.tier == "quick" else (1, 2, 3, 4)):
        cfg = T.write_cfg("homog_mc", ["INIT Init", "NEXT Next", "CONSTANTS", "  NP = %d" % nph, "  Mobs <- MobsDef", "  Fracs <- FracsDef",
                                        "INVARIANT InvBounds", "INVARIANT InvPermutation"])
        res = run_tlc("MC_Homogenization", cfg, deadlock=False, timeout=3000, tag="homog_mc")
        ctx.add_tlc(res, "MC_Homogenization NP=%d" % nph)
        if res.violated:
            ctx.tlc_violation(res, "MC_Homogenization NP=%d" % nph)
    # (B)
    direct = D.gen_direct(ctx.rng, ctx.tier)
    js, obs = [], []
    for (names, mob, frac, rule, labn) in direct:
        js.append(D.to_case(names, mob, frac, rule, labn, {"mode": "none", "arg": ""}))
        obs.append(D.direct_case(rule, labn, mob, frac))
    # (C)
    scen = D.gen_points(ctx.rng, ctx.tier)
    pobs = []
    for sc in scen:
        outs, eff = D.run_point(sc)
        for (mode, arg), o in outs:
            js.append(D.to_case(sc["names"], eff, sc["frac"], sc["rule"], sc["labn"], {"mode": mode, "arg": arg}))
            pobs.append((sc, mode, arg, o))
    exp, ress = eval_parallel("Homogenization_Eval", js, tag="homogeval")
    for r in ress:
        ctx.add_tlc(r, "Homogenization_Eval")
    nd = len(direct)
    for (names, mob, frac, rule, labn), (o, intact), e, j in zip(direct, obs, exp[:nd], js[:nd]):
        ctx.replayed += 1
        ctx.case(j, nontrivial=len(names) > 1, sample=j if len(ctx.samples) < 2 else None)
        bad = []
        if len(o) != len(e["avg"]) or any(not close(v, Fr(*w), rtol=1e-9) for v, w in zip(o, e["avg"])):
            bad.append("value")
        if not intact: bad.append("arguments-modified")
        if not e["bounds"]: bad.append("spec:bounds")
        if bad:
            ctx.violation("homog-rule:%s:%s" % (rule, ",".join(bad)), "%s on %d phases: %s (observed %s, expected %s)" % (rule, len(names), bad, o, e["avg"]),
                          {"case": j, "observed": o, "expected": e})
    for (sc, mode, arg, o), e, j in zip(pobs, exp[nd:], js[nd:]):
        ctx.replayed += 1
        ctx.case(j, nontrivial=True, sample={"scenario": j} if len(ctx.samples) < 4 else None)
        if "exc" in o:
            ctx.violation("homog-post:%s:exception" % mode, "post-process %s(%s) on stable phases %s raised %s" % (mode, arg, sc["names"], o["exc"]),
                          {"scenario": j, "observed": o})
            continue
        # the averaged array has one entry per element; the scripted phases give both elements the same mobility
        # <<1, 0>> is the specification's infinity (lower rules when every remaining phase has an undefined mobility: 1/sum(f/inf))
        w0 = e["avg"][0]
        if w0[1] == 0:
            mismatch = any(v != float("inf") for v in o["avg"])
        else:
            mismatch = any(not close(v, Fr(*w0), rtol=1e-9, atol=1e-290) for v in o["avg"])
        if mismatch:
            ctx.violation("homog-post:%s:value" % mode, "post-process %s(%s), stable phases %s (database order %s): observed %s, by-name semantics %s" %
                          (mode, arg, sc["names"], D.ALLPHASES, o["avg"], e["avg"]), {"scenario": j, "observed": o, "expected": e})


if __name__ == "__main__":
    main(run, "C17", "model_checking")
