"""C13 for the diffusion models: the temperature a SinglePhaseModel / HomogenizationModel works with at every step is the user schedule
at that step's time (constant / break points / function; constructor object / setter), also beyond the last break point and for schedules
that fall; equivalent specifications give the same run.  The models do not record a temperature: what is observed is the temperature of
every diffusivity request the scripted backend receives, per accepted step."""
import io, contextlib
import numpy as np
from kawin.diffusion.SinglePhase import SinglePhaseModel
from kawin.diffusion.DiffusionParameters import TemperatureParameters
from kawin.solver.Solver import SolverType
from .kwn_drv import cmp3


class TTherm:
    """D depends on the temperature only; every request is logged"""
    def __init__(self):
        self.req = []

    def clearCache(self):
        pass

    def getInterdiffusivity(self, x, T, removeCache=True, phase=None):
        self.req.append(float(np.atleast_1d(T)[0]))
        return 1e-14 * np.exp((float(np.atleast_1d(T)[0]) - 1000.0) / 200.0)


def schedule(spec, t):
    if spec[0] == "const":
        return float(spec[1])
    h, T = spec[1], spec[2]
    return float(np.interp(t / 3600.0, h, T, T[0], T[-1]))


SCHEDULES = {
    "const": ("const", 1050.0),
    "rising-past-the-last-break-point": ("array", [0.0, 0.5, 1.0], [1000.0, 1100.0, 1200.0]),
    "falling-past-the-last-break-point": ("array", [0.0, 0.4, 1.0], [1200.0, 1150.0, 1000.0]),
    "starting-after-zero": ("array", [0.5, 1.0], [1000.0, 1100.0]),
    "up-and-down": ("array", [0.0, 0.5, 1.0, 1.5], [1000.0, 1150.0, 1050.0, 1100.0]),
}


def build(spec, how):
    th = TTherm()
    tp = None
    if how == "constructor":
        with contextlib.redirect_stdout(io.StringIO()):
            tp = TemperatureParameters(spec[1]) if spec[0] == "const" else TemperatureParameters(spec[1], spec[2])
    m = SinglePhaseModel([0.0, 1e-3], 12, ["A", "B"], ["PH"], thermodynamics=th, temperatureParameters=tp, record=False)
    m.useCache(False)
    m.setCompositionStep(0.2, 0.6, 0.5e-3, "B")
    if how == "setter":
        if spec[0] == "const": m.setTemperature(spec[1])
        else: m.setTemperatureArray(spec[1], spec[2])
    elif how == "function":
        m.setTemperatureFunction(lambda z, t, spec=spec: schedule(spec, t) * np.ones(len(z)))
    return m, th


def run(spec, how, it, calls):
    m, th = build(spec, how)
    rows = []

    class Obs:
        def updateCoupledModel(self, model):
            rows.append((float(model.t), list(th.req)))
            del th.req[:]
    m.addCouplingModel(Obs())
    st = SolverType.RK4 if it == "rk4" else SolverType.EXPLICITEULER
    with contextlib.redirect_stdout(io.StringIO()):
        for span in calls:
            m.solve(span * 3600.0, solverType=st, maxDtFrac=0.05)
    return rows, np.array(m.x[0]).copy(), float(m.t)


def relations(tier):
    ev = [{"e": "init"}]
    try:
        for name, spec in SCHEDULES.items():
            ref = None
            for it in ("euler", "rk4"):
                ref = None
                for how in ("setter", "constructor", "function"):
                    rows, x, tend = run(spec, how, it, [1.2, 0.8])
                    tag = "%s/%s/%s" % (name, how, it)
                    tprev = 0.0
                    for k, (t, req) in enumerate(rows):
                        # stage times of the step [tprev, t]: Euler t_n; RK4 t_n, midpoint (twice), t_{n+1}; plus the evaluation that proposes the next step
                        cand = [tprev] if it == "euler" else [tprev, 0.5 * (tprev + t), t]
                        want = [schedule(spec, c) for c in cand]
                        ok = bool(len(req) > 0 and all(any(abs(r - w) <= 1e-9 * max(1.0, abs(w)) for w in want) for r in req))
                        ev.append({"e": "rel", "group": "C13:diffusion-temperature=schedule(stage time)", "name": "%s step %d" % (tag, k + 1), "c": "eq" if ok else "gt", "want": "eq"})
                        if k in (0, len(rows) - 1) or not ok:
                            # the first stage of every step is evaluated at the step's start
                            ev.append({"e": "rel", "group": "C13:diffusion-temperature=schedule(step start)", "name": "%s step %d" % (tag, k + 1),
                                       "c": cmp3(req[0] if req else float("nan"), want[0], rtol=1e-12), "want": "eq"})
                        tprev = t
                    ev.append({"e": "rel", "group": "C13:diffusion-run-ends-at-requested-time", "name": tag, "c": cmp3(tend, 2.0 * 3600.0, rtol=1e-12), "want": "eq"})
                    if ref is None:
                        ref = (x, len(rows))
                    else:
                        same = bool(len(rows) == ref[1] and np.allclose(x, ref[0], rtol=1e-12, atol=0))
                        ev.append({"e": "rel", "group": "C13:equivalent-schedules-identical-diffusion-run", "name": tag, "c": "eq" if same else "gt", "want": "eq"})
    except Exception as ex:  # noqa
        ev.append({"e": "exception", "msg": "%s: %s" % (type(ex).__name__, str(ex)[:200])})
    return ev
