"""C11, diffusion profiles under a reordering of the solutes WITH boundary conditions: a ternary SinglePhaseModel on a scripted,
name-addressed interdiffusivity; the same named profile and the same named boundary conditions, entered in several call orders,
with the solutes listed as (B, C) and as (C, B).  Events for Relations.tla."""
import io, contextlib
import numpy as np
from kawin.diffusion.SinglePhase import SinglePhaseModel
from kawin.diffusion.DiffusionParameters import BoundaryConditions
from kawin.solver.Solver import SolverType

BASE = {("B", "B"): 3e-14, ("B", "C"): 4e-15, ("C", "B"): -2e-15, ("C", "C"): 1e-14}


class NamedDiffTherm:
    """D[e, k] addressed by element NAME, with a dependence on the content of B: equivariant by construction"""
    def __init__(self, solutes):
        self.s = list(solutes)

    def clearCache(self):
        pass

    def getInterdiffusivity(self, x, T, removeCache=True, phase=None):
        x = np.atleast_1d(np.asarray(x, dtype=float))
        xB = x[self.s.index("B")]
        return np.array([[BASE[(a, b)] * (1.0 + 2.0 * xB) for b in self.s] for a in self.s])


BCS = {
    "none": [],
    "B-then-C": [("B", ("flux", 1e-12, "comp", 0.3)), ("C", ("comp", 0.15, "flux", -5e-13))],
    "C-then-B": [("C", ("comp", 0.15, "flux", -5e-13)), ("B", ("flux", 1e-12, "comp", 0.3))],
    "C-only": [("C", ("comp", 0.15, "flux", -5e-13))],
    "B-only": [("B", ("flux", 1e-12, "comp", 0.3))],
}


def run(solutes, bcname, it):
    m = SinglePhaseModel([0.0, 1e-3], 16, ["A"] + list(solutes), ["PH"], thermodynamics=NamedDiffTherm(solutes), record=False)
    m.setTemperature(1000)
    m.useCache(False)
    m.setCompositionStep(0.1, 0.3, 0.5e-3, "B")
    m.setCompositionLinear(0.15, 0.05, "C")
    T = {"flux": BoundaryConditions.FLUX_BC, "comp": BoundaryConditions.COMPOSITION_BC}
    for el, (lt, lv, rt, rv) in BCS[bcname]:
        m.setBC(T[lt], lv, T[rt], rv, el)
    with contextlib.redirect_stdout(io.StringIO()):
        m.solve(3.0e6, solverType=SolverType.RK4 if it == "rk4" else SolverType.EXPLICITEULER, maxDtFrac=0.02)
        m.solve(1.0e6, solverType=SolverType.RK4 if it == "rk4" else SolverType.EXPLICITEULER, maxDtFrac=0.02)
    return {el: np.array(m.x[i]).copy() for i, el in enumerate(solutes)}, float(m.t)


def relations(tier):
    ev = [{"e": "init"}]
    try:
        for bc in BCS:
            for it in (("euler", "rk4") if tier != "quick" or bc in ("C-only", "B-then-C") else ("euler",)):
                a, ta = run(("B", "C"), bc, it)
                b, tb = run(("C", "B"), bc, it)
                moved = max(float(np.max(np.abs(a["B"] - a["B"][0]))), 0.0)
                for el in ("B", "C"):
                    same = bool(np.allclose(a[el], b[el], rtol=1e-10, atol=1e-14))
                    ev.append({"e": "rel", "group": "C11:diffusion-profile-independent-of-solute-order(boundary conditions %s)" % bc, "name": "%s %s" % (el, it),
                               "c": "eq" if same else "gt", "want": "eq"})
                ev.append({"e": "rel", "group": "C11:diffusion-time-independent-of-solute-order", "name": "%s %s" % (bc, it), "c": "eq" if ta == tb else "gt", "want": "eq"})
        # the same named conditions entered in another call order give the same run as well
        for it in ("euler",):
            a, _ = run(("B", "C"), "B-then-C", it)
            b, _ = run(("B", "C"), "C-then-B", it)
            for el in ("B", "C"):
                ev.append({"e": "rel", "group": "C11:diffusion-profile-independent-of-call-order-of-the-boundary-conditions", "name": el,
                           "c": "eq" if np.allclose(a[el], b[el], rtol=1e-12, atol=0) else "gt", "want": "eq"})
    except Exception as ex:  # noqa
        ev.append({"e": "exception", "msg": "%s: %s" % (type(ex).__name__, str(ex)[:200])})
    return ev
