"""Check context: collects what a run covered, decides VIOLATION vs KNOWN-FINDING, writes evidence."""
import os, sys, json, time, random, traceback
from fractions import Fraction
from .tlc import VERIF, OUT, MachineryError, digest

EVID = os.environ.get("VERIF_EVIDENCE_DIR") or os.path.join(VERIF, "evidence")      # seed trials write their evidence elsewhere
REPLAY = os.path.join(OUT, "replay")
FINDINGS = os.path.join(VERIF, "known_findings.json")

RTOL = 1e-9      # exact-domain agreement code vs specification (see DESIGN 1.3)
ATOL = 1e-300


def load_findings():
    if not os.path.exists(FINDINGS):
        return []
    with open(FINDINGS) as f:
        return json.load(f)["findings"]


class Ctx:
    def __init__(self, pid, tier, seed, level):
        self.pid, self.tier, self.seed, self.level = pid, tier, seed, level
        self.t0 = time.time()
        self.rng = random.Random(seed)
        self.states = 0
        self.transitions = 0
        self.tlc_runs = []
        self.replayed = 0            # transitions/events of the real implementation validated
        self.evaluations = 0
        self.distinct = set()
        self.samples = []
        self.violations = []         # (key, message, replay_path)
        self.known_hit = []
        self.assumptions = []
        self.extra = {}
        self.rule = ""
        self.exhaustive = False
        self.findings = [f for f in load_findings() if f["property"] == pid]

    # ---- bookkeeping ----
    def add_tlc(self, res, what=""):
        self.states += res.distinct
        self.transitions += res.generated
        d = res.as_dict()
        d["what"] = what
        self.tlc_runs.append(d)

    def case(self, key, nontrivial=True, sample=None):
        """count one evaluated case; key identifies distinctness"""
        self.evaluations += 1
        if nontrivial:
            self.distinct.add(key if isinstance(key, (str, int)) else digest(key))
        if sample is not None and len(self.samples) < 6:
            self.samples.append(sample)

    def violation(self, key, message, detail):
        """key: stable identification of the specific failing input / call site / history."""
        for f in self.findings:
            if f.get("status") == "open" and f["key"] == key:
                if key not in [k for k, _ in self.known_hit]:
                    self.known_hit.append((key, f["what"]))
                return False
        os.makedirs(REPLAY, exist_ok=True)
        path = os.path.join(REPLAY, "%s-%s.json" % (self.pid, digest([key, detail])))
        with open(path, "w") as f:
            json.dump({"property": self.pid, "key": key, "message": message, "detail": detail},
                      f, indent=1, default=str)
        if len(self.violations) < 50:
            self.violations.append((key, message, path))
        return True

    def tlc_violation(self, res, what):
        self.violation("tlc:%s:%s" % (what, res.violated),
                       "TLC reports %s violated in %s" % (res.violated, what),
                       {"cmd": res.cmd, "trace": res.trace_text})

    # ---- finish ----
    def finish(self):
        wall = time.time() - self.t0
        cov = {
            "states": self.states,
            "transitions": self.transitions,
            "traces_validated_against_impl": self.replayed,
            "evaluations": self.evaluations,
            "distinct_nontrivial": len(self.distinct),
            "rule": self.rule,
            "samples": self.samples[:6] or ["(none)"],
            "exhaustive": self.exhaustive,
            "tlc_runs": self.tlc_runs,
            "rtol": RTOL,
        }
        cov.update(self.extra)
        ev = {
            "property_id": self.pid, "tier": self.tier, "seed": self.seed, "level": self.level,
            "coverage": cov, "assumptions": self.assumptions, "wall_s": round(wall, 2),
            "violations": len(self.violations),
            "known_findings": [k for k, _ in self.known_hit],
        }
        os.makedirs(EVID, exist_ok=True)
        with open(os.path.join(EVID, self.pid + ".json"), "w") as f:
            json.dump(ev, f, indent=1, default=str)
        for k, what in self.known_hit:
            print("KNOWN-FINDING: property=%s %s [%s]" % (self.pid, what, k))
        for k, msg, path in self.violations:
            print("VIOLATION property=%s replay=%s" % (self.pid, path))
            print("  " + msg[:600])
        print("%s %s: states=%d transitions=%d impl_validated=%d cases=%d distinct=%d violations=%d wall=%.1fs" %
              (self.pid, self.tier, self.states, self.transitions, self.replayed, self.evaluations,
               len(self.distinct), len(self.violations), wall))
        return 1 if self.violations else 0


# ---- number helpers (exact domain) ----
def rat(x):
    """Python number -> [num, den] for the TLA+ side (exact; floats must be exactly representable small rationals)."""
    f = Fraction(x)
    if abs(f.numerator) >= 2**31 or f.denominator >= 2**31:
        raise MachineryError("value %r not representable as 32-bit rational" % (x,))
    return [f.numerator, f.denominator]


def unrat(r):
    return Fraction(r[0], r[1])


def close(obs, exp, rtol=RTOL, atol=0.0):
    """obs: float from the code; exp: Fraction/int from the specification."""
    try:
        o = float(obs)
    except Exception:
        return False
    if o != o or o in (float("inf"), float("-inf")):
        return False
    e = float(exp)
    return abs(o - e) <= atol + rtol * max(abs(e), abs(o))


def main(run, pid, level):
    import argparse
    ap = argparse.ArgumentParser()
    ap.add_argument("--tier", default=os.environ.get("VERIF_TIER", "quick"))
    ap.add_argument("--seed", type=int, default=int(os.environ.get("VERIF_SEED", "0") or 0))
    ap.add_argument("--replay", default=None)
    a = ap.parse_args(sys.argv[2:])
    tier = "thorough" if a.tier.startswith("t") else "quick"
    ctx = Ctx(pid, tier, a.seed, level)
    try:
        if a.replay:
            with open(a.replay) as f:
                rp = json.load(f)
            ctx.extra["replay_of"] = a.replay
            run(ctx, replay=rp)
        else:
            run(ctx)
        rc = ctx.finish()
    except MachineryError as e:
        print("MACHINERY-ERROR %s: %s" % (pid, e))
        sys.exit(2)
    except Exception:
        traceback.print_exc()
        print("MACHINERY-ERROR %s: unexpected exception in harness" % pid)
        sys.exit(2)
    sys.exit(rc)
