"""Driver for the real SinglePhaseModel with scripted thermodynamics (C04, exact domain)."""
from fractions import Fraction as Fr
import numpy as np
from kawin.diffusion.SinglePhase import SinglePhaseModel
from kawin.diffusion.DiffusionParameters import BoundaryConditions
from kawin.solver.Solver import SolverType


def rat(f):
    f = Fr(f)
    return [f.numerator, f.denominator]


class FakeDiffTherm:
    """D_ek(x, T) = Tm(T) * (A_ek + B_ek * x_1);  Tm(1000) = 1, Tm(1100) = 2"""
    def __init__(self, A, B):
        self.A = np.array([[float(v) for v in r] for r in A])
        self.B = np.array([[float(v) for v in r] for r in B])
        self.calls = 0
        self.cleared = 0

    def clearCache(self):
        self.cleared += 1

    def getInterdiffusivity(self, x, T, removeCache=True, phase=None):
        self.calls += 1
        x = np.atleast_1d(x)
        tm = 2.0 if T == 1100 else 1.0
        D = tm * (self.A + self.B * x[0])
        return D[0, 0] if D.shape == (1, 1) else D


ELS = ["A", "B", "C"]


def build_model(c):
    E, N = c["E"], c["N"]
    therm = FakeDiffTherm(c["A"], c["B"])
    m = SinglePhaseModel([float(c["z0"]), float(c["z1"])], N, ELS[:E + 1], ["PH"], thermodynamics=therm, record=True)
    m.constraints.minComposition = float(c["minc"])
    m.constraints.vonNeumannThreshold = float(c["threshold"])
    m.useCache(c.get("cache", False))
    T = {"flux": BoundaryConditions.FLUX_BC, "comp": BoundaryConditions.COMPOSITION_BC}
    # boundary conditions may be entered in any order of the elements (and only for some of them: the others default to closed)
    order = list(range(E))
    if c.get("bcorder") == "reversed":
        order = order[::-1]
    for e in order:
        bc = c["bc"][e]
        if c.get("bcorder") == "only-nondefault" and bc["lt"] == "flux" and bc["rt"] == "flux" and bc["lv"] == 0 and bc["rv"] == 0:
            continue
        if E == 1 and c.get("bcorder") == "no-element":
            m.setBC(T[bc["lt"]], float(bc["lv"]), T[bc["rt"]], float(bc["rv"]))        # element omitted: the (only) independent element, as for the setComposition helpers
        else:
            m.setBC(T[bc["lt"]], float(bc["lv"]), T[bc["rt"]], float(bc["rv"]), ELS[e + 1])
    for e in range(E):
        el = ELS[e + 1]
        m.compositionProfile.clearCompositionBuildSteps(el)
        for st in c["build"][e]:
            k = st["k"]
            if k == "linear": m.compositionProfile.addLinearCompositionStep(el, float(st["l"]), float(st["r"]))
            elif k == "step": m.compositionProfile.addStepCompositionStep(el, float(st["l"]), float(st["r"]), float(st["z"]))
            elif k == "single": m.compositionProfile.addSingleCompositionStep(el, float(st["v"]), float(st["z"]))
            elif k == "bounded": m.compositionProfile.addBoundedCompositionStep(el, float(st["v"]), float(st["zl"]), float(st["zr"]))
            elif k == "function":
                a, b = float(st["a"]), float(st["b"])
                m.compositionProfile.addFunctionCompositionStep(el, lambda z, a=a, b=b: a + b * z)
            elif k == "profile":
                m.compositionProfile.addProfileCompositionStep(el, [float(v) for v in st["xs"]], [float(v) for v in st["zs"]])
    if c["tfield"] == "const":
        m.setTemperature(1000)
    elif c["tfield"] == "node":
        half = c["N"] // 2
        zs = np.linspace(float(c["z0"]), float(c["z1"]), c["N"])
        m.setTemperatureFunction(lambda z, t, zs=zs, half=half: np.where(np.searchsorted(zs, z - 1e-12) < half, 1000.0, 1100.0))
    else:
        ts = float(c["tswitch"])
        m.setTemperatureFunction(lambda z, t, ts=ts: (1000.0 if t < ts else 1100.0) * np.ones(len(z)))
    return m, therm


def run_case(c):
    out = {"rec": [], "err": ""}
    try:
        m, therm = build_model(c)
        it = SolverType.RK4 if c["iter"] == "rk4" else SolverType.EXPLICITEULER
        for span in c["calls"]:
            m.solve(float(span), solverType=it, minDtFrac=float(c["mindt"]), maxDtFrac=1)
        out["rec"] = [{"t": float(t), "x": [[float(v) for v in row] for row in X]} for t, X in zip(m._recordedTime, m._recordedX)]
        out["t"] = float(m.t)
        out["x"] = [[float(v) for v in row] for row in m.x]
        out["mesh"] = []
        import io, contextlib
        for tq in c.get("meshtimes", []):
            with contextlib.redirect_stdout(io.StringIO()):
                m.setMeshtoRecordedTime(float(tq))
            out["mesh"].append([[float(v) for v in row] for row in m.x])
    except Exception as ex:  # noqa
        out["err"] = type(ex).__name__
        out["msg"] = str(ex)[:200]
    return out


def to_json(c):
    def st_json(st):
        o = {}
        for k, v in st.items():
            o[k] = v if k == "k" else ([rat(x) for x in v] if isinstance(v, list) else rat(v))
        return o
    return {"N": c["N"], "E": c["E"], "z0": rat(c["z0"]), "z1": rat(c["z1"]),
            "build": [[st_json(st) for st in steps] for steps in c["build"]],
            "bc": [{"lt": b["lt"], "lv": rat(b["lv"]), "rt": b["rt"], "rv": rat(b["rv"])} for b in c["bc"]],
            "minc": rat(c["minc"]), "threshold": rat(c["threshold"]), "iter": c["iter"],
            "A": [[rat(v) for v in r] for r in c["A"]], "B": [[rat(v) for v in r] for r in c["B"]],
            "tfield": c["tfield"], "tswitch": rat(c.get("tswitch", 0)), "calls": [rat(s) for s in c["calls"]],
            "mindt": rat(c["mindt"]), "fuel": c["fuel"], "meshtimes": [rat(t) for t in c.get("meshtimes", [])]}


def gen_cases(rng, tier):
    """Exact-domain configurations.  All parameters are dyadic and coarse so that the exact profiles keep
    denominators below 2^31 for the whole run (TLC integers are 32 bit): compositions k/16, minComposition 1/256,
    D entries in {1, 2}, von Neumann threshold 1/4, <= 4 Euler steps in total; RK4 runs take a single step."""
    cases = []
    n = 300 if tier == "quick" else 3000
    for idx in range(n):
        it = rng.choice(["euler", "euler", "euler", "rk4"])
        E = rng.choice([1, 1, 2]) if it == "euler" else 1
        N = rng.choice([3, 4, 5, 6]) if it == "euler" else rng.choice([3, 4])
        dz = rng.choice([Fr(1), Fr(2), Fr(1, 2)])
        z0 = rng.choice([Fr(0), Fr(1)])
        z1 = z0 + dz * (N - 1)
        q = lambda k: Fr(k, 16)
        build = []
        for e in range(E):
            steps = []
            for _ in range(rng.choice([1, 1, 2])):
                k = rng.choice(["linear", "step", "single", "bounded", "function", "profile"])
                if k == "linear":
                    l = rng.randint(0, 5); steps.append(dict(k=k, l=q(l), r=q(l) + Fr(rng.randint(-l, 5 - l) * (N - 1), 16 * (N - 1))))
                elif k == "step": steps.append(dict(k=k, l=q(rng.randint(0, 5)), r=q(rng.randint(0, 5)), z=z0 + dz * rng.choice([1, Fr(3, 2), 2])))
                elif k == "single": steps.append(dict(k=k, v=q(rng.randint(1, 5)), z=z0 + dz * rng.choice([0, 1, Fr(5, 4), N - 1, N + 3])))
                elif k == "bounded": steps.append(dict(k=k, v=q(rng.randint(1, 5)), zl=z0 + dz * rng.choice([0, 1]), zr=z0 + dz * rng.choice([1, 2, N])))
                elif k == "function": steps.append(dict(k=k, a=q(rng.randint(0, 3)) - z0 * Fr(1, 16) / dz, b=Fr(rng.randint(0, 1), 16) / dz))
                else: steps.append(dict(k=k, zs=[z0, z0 + dz, z1], xs=[q(rng.randint(0, 5)) for _ in range(3)]))
            build.append(steps)
        bc = []
        for e in range(E):
            def side():
                r = rng.random()
                if r < 0.45: return ("flux", Fr(0))
                if r < 0.65: return ("flux", Fr(rng.choice([-2, -1, 1, 2]), 32))
                return ("comp", q(rng.randint(1, 5)))
            (lt, lv), (rt, rv) = side(), side()
            bc.append(dict(lt=lt, lv=lv, rt=rt, rv=rv))
        saturate = E == 1 and rng.random() < 0.12
        if saturate:
            # upper composition limit: a nearly pure solute fed by an inward flux (or drained by an outward one: lower limit)
            hi = rng.random() < 0.7
            v = q(rng.choice([14, 15])) if hi else q(rng.choice([1, 2]))
            build = [[dict(k="linear", l=v, r=v)]]
            J = Fr(rng.choice([1, 2, 4]), 4) * (1 if hi else -1)
            bc = [rng.choice([dict(lt="flux", lv=J, rt="flux", rv=Fr(0)), dict(lt="flux", lv=Fr(0), rt="flux", rv=-J),
                              dict(lt="flux", lv=J, rt="flux", rv=-J)])]
        onestep = it == "rk4" or rng.random() < 0.25
        if E == 1:
            A = [[Fr(rng.choice([1, 2]))]]
            B = [[Fr(rng.choice([0, 1])) if (onestep and it == "euler") else Fr(0)]]
        else:
            A = [[Fr(2), Fr(1)], [Fr(1), Fr(2)]]
            B = [[Fr(1), Fr(0)], [Fr(0), Fr(1)]] if (onestep and rng.random() < 0.5) else [[Fr(0), Fr(0)], [Fr(0), Fr(0)]]
        threshold = Fr(1, 4)
        tfield = rng.choice(["const", "const", "node", "time"])
        maxD = max(abs(v) for r in A for v in r) * (2 if tfield != "const" else 1) + max(abs(v) for r in B for v in r)
        dt0 = threshold * dz * dz / maxD
        if onestep:
            calls = [dt0 * rng.choice([Fr(1, 2), 1])]
        else:
            calls = [dt0 * rng.choice([1, Fr(3, 2), 2]) for _ in range(rng.randint(1, 3))]
            while sum(-(-c // dt0) for c in calls) > 4:
                calls.pop()
        total = sum(calls)
        meshtimes = [Fr(-1), Fr(0), dt0 / 2, dt0, dt0 * Fr(5, 4), total, total + 1]
        cases.append(dict(meshtimes=meshtimes, N=N, E=E, z0=z0, z1=z1, build=build, bc=bc, minc=Fr(1, 256), threshold=threshold,
                          iter=it, A=A, B=B, tfield=tfield, tswitch=calls[0] * Fr(3, 4), calls=calls, mindt=Fr(1, 2 ** 10), fuel=12,
                          cache=rng.random() < 0.3 and all(v == 0 for r in B for v in r),
                          bcorder=(rng.choice(["element", "reversed", "only-nondefault"]) if E == 2 else rng.choice(["element", "element", "no-element"]))))
    return cases
