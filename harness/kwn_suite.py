"""The shared suite of PrecipitateModel runs behind C01, C02, C03, C12(f), C13, C14(c): configurations, parallel
execution, projection, batch validation by KWN_Trace.tla, and a cache keyed by the content of /repo/kawin."""
import os, json, hashlib, glob, copy, random
import concurrent.futures as cf
from .tlc import OUT, VERIF, MachineryError
from . import traces as T

REFRESH_MODE = "fixed"      # "asbuilt" = the refresh rule before the fix (known_findings.json)


def H(t): return t / 3600.0   # schedule break points are given in hours


def base_configs():
    c = _base_configs()
    for x in c:
        x.setdefault("cap", 700)           # bounds the number of steps per run (the model chooses its own dt)
    return c


def _base_configs():
    ph = dict(name="beta", gamma=0.05)
    c = []
    c.append(dict(tag="iso-euler-2calls", phases=[ph], D=1e-16, calls=[(200.0, 0.02), (300.0, 0.05)], iter="euler"))
    c.append(dict(tag="iso-rk4", phases=[ph], D=1e-16, calls=[(300.0, 0.02)], iter="rk4"))
    c.append(dict(tag="two-phases", phases=[dict(name="beta", gamma=0.05), dict(name="gamma", gamma=0.06, xe0=0.004, K=1.2e5, xb=0.3, VmB=1.2e-5)],
                  D=1e-16, calls=[(200.0, 0.02), (200.0, 0.02)], iter="euler"))
    c.append(dict(tag="grain-boundary", phases=[dict(name="beta", gamma=0.05, site="grain boundaries")], gb=0.03, D=1e-16,
                  calls=[(300.0, 0.02)], iter="euler"))
    c.append(dict(tag="vm-ratio-noninf", phases=[dict(name="beta", gamma=0.05, VmB=2e-5, infinite=False, xlim=0.1)], D=1e-16, calls=[(300.0, 0.02)], iter="euler"))
    c.append(dict(tag="slow-ramp", phases=[ph], D=1e-16, se=1e-5, temp=("array", [0, H(400.0)], [1000, 1008]), calls=[(400.0, 0.01)], iter="euler"))
    c.append(dict(tag="heat-cool", phases=[ph], D=1e-16, se=1e-5, temp=("array", [0, H(100.0), H(200.0)], [1000, 1004, 1000]), calls=[(200.0, 0.005)],
                  iter="euler", constraints=dict(maxNonIsothermalDT=10)))
    c.append(dict(tag="ramp-function", phases=[ph], D=1e-16, se=1e-5, temp=("function", [0, H(300.0)], [1000, 990]), calls=[(300.0, 0.01)], iter="euler"))
    # a model object that had another grain boundary energy in an earlier life (set up, factors read, reset): grain-boundary type sites
    gbp = dict(name="beta", gamma=0.05, site="grain boundaries")
    c.append(dict(tag="reused-model-gb-energy-lowered", phases=[gbp], D=1e-16, gb=0.02, prelude=dict(gb=0.06, span=2.0), calls=[(100.0, 0.02)], iter="euler"))
    c.append(dict(tag="reused-model-gb-energy-raised", phases=[dict(gbp, site="grain edges")], D=1e-16, gb=0.06, prelude=dict(gb=0.0), calls=[(100.0, 0.02)], iter="rk4"))
    # no diffusion inside the precipitates (solute content integrated over the history) with a size-independent precipitate composition:
    # the content must still be the composition-weighted third moment, with either iterator and over several solve calls
    c.append(dict(tag="noninf-constant-xbeta-rk4", phases=[dict(ph, infinite=False)], cb=0.0, D=1e-16, calls=[(40.0, 0.02), (60.0, 0.02)], iter="rk4"))
    c.append(dict(tag="noninf-constant-xbeta-euler", phases=[dict(ph, infinite=False)], cb=0.0, D=1e-16, calls=[(40.0, 0.02), (60.0, 0.02)], iter="euler"))
    # ... and across replacements of the grid (open finding: the integrated content does not follow the volume the re-mesh loses or gains)
    c.append(dict(tag="noninf-constant-xbeta-new-grid", phases=[dict(ph, infinite=False)], cb=0.0, D=1e-15, pbm=(1e-10, 1e-9, 24, 12, 36, True), calls=[(400.0, 0.01)], iter="euler"))
    c.append(dict(tag="inf-constant-xbeta-rk4", phases=[ph], cb=0.0, D=1e-16, calls=[(100.0, 0.02)], iter="rk4"))
    # size classes set for all phases in one call (the usual call): every phase keeps its own distribution
    g2 = dict(name="gamma", gamma=0.06, xe0=0.004, K=1.2e5, xb=0.3, VmB=1.2e-5)
    c.append(dict(tag="two-phases-classes-set-for-all", phases=[ph, g2], D=1e-16, pbm=(1e-10, 1e-9, 30, 12, 36, True), calls=[(60.0, 0.02)], iter="euler"))
    c.append(dict(tag="two-phases-classes-set-for-all-rk4", phases=[ph, g2], D=1e-16, pbm=(1e-10, 2e-9, 24, 12, 60, False), calls=[(30.0, 0.02), (30.0, 0.02)], iter="rk4"))
    c.append(dict(tag="multi-two-phases-classes-set-for-all", multi=True, phases=[ph, dict(name="gamma", gamma=0.055, xe0=(0.005, 0.004), xb=(0.15, 0.2), w=(0.6, 1.0))],
                  D=1e-16, pbm=(1e-10, 1e-9, 30, 12, 36, True), calls=[(60.0, 0.02)], iter="euler"))
    # heated beyond the stability limit of the precipitate (no planar equilibrium at all) and cooled back, impingement rate as in multicomponent systems
    c.append(dict(tag="beyond-stability-and-back-beta2", phases=[ph], D=1e-15, se=3e-3, beta=2, temp=("array", [0, H(0.02), H(0.04), H(0.06)], [1000, 1000, 1100, 1000]),
                  calls=[(0.08, 0.02)], iter="euler"))
    c.append(dict(tag="beyond-stability-and-back-rk4", phases=[ph], D=1e-15, se=3e-3, temp=("array", [0, H(0.02), H(0.04), H(0.06)], [1000, 1000, 1100, 1000]),
                  calls=[(0.08, 0.02)], iter="rk4"))
    # elastic strain energy (constant per precipitate volume): taken off the driving force once, in the binary and in the multicomponent path
    c.append(dict(tag="binary-strain-energy", phases=[dict(ph, strainE=3e7)], D=1e-16, calls=[(100.0, 0.02)], iter="euler"))
    c.append(dict(tag="multi-strain-energy", multi=True, phases=[dict(ph, strainE=3e7)], calls=[(0.6, 0.02), (0.6, 0.02)], iter="euler"))
    # age to a few per cent of precipitate, then heat mildly above the solvus (every class dissolves, the planar interface stays stable): the
    # dissolution re-mesh of the size classes must not create particles
    c.append(dict(tag="age-then-mild-heat-dissolving", phases=[ph], D=1e-15, se=3e-3, retemp=[1000, 1008], calls=[(0.3, 0.05), (0.02, 0.02)], iter="euler", cap=800))
    # a plate whose aspect ratio grows with its size (given by the user) and a shape dependent (ellipsoidal) strain energy: the Gibbs-Thomson
    # energy of every size class carries the strain energy of a particle of THAT size
    c.append(dict(tag="plate-ar-function-shape-strain", phases=[dict(ph, shape=("plate", ("linear", 1.0, 4.0)), strainShape=((6.67e-3, 6.67e-3, 2.86e-2), 57.1e9, 0.33))],
                  D=1e-16, calls=[(20.0, 0.02)], iter="euler", cap=300))
    # two phases of different precipitate composition on a small grid: the SECOND phase outgrows its grid (classes appended for it)
    c.append(dict(tag="two-phases-second-outgrows-its-grid", phases=[ph, dict(name="gamma", gamma=0.045, xe0=0.004, K=1.2e5, xb=0.5, VmB=1.2e-5)], D=1e-15,
                  pbm=(1e-10, 6e-10, 20, 10, 200, True), calls=[(0.2, 0.02), (0.2, 0.02)], iter="euler", cap=600))
    # a minimum step fraction that is not negligible: the last step of a call may be shorter than it, the run still ends exactly on time.
    # (an undersaturated alloy: nothing precipitates, so steps forced up to the minimum fraction cannot drain classes beyond the model's own limit)
    c.append(dict(tag="min-step-fraction-undersaturated", phases=[ph], D=1e-16, x0=0.004, minfrac=0.2, calls=[(50.0, 0.3)], iter="rk4", norandom=True))
    c.append(dict(tag="min-step-fraction-undersaturated-two-calls", phases=[ph], D=1e-16, x0=0.004, minfrac=0.2, calls=[(20.0, 0.3), (30.0, 0.3)], iter="euler", norandom=True))
    # every size class of the grid unstable while the driving force is positive (the stability limit lies above the largest class): the run goes on
    # at its ordinary pace (~500 steps) and reaches its end time
    c.append(dict(tag="all-classes-unstable-positive-driving-force", phases=[ph], D=1e-16, xlim=0.012, calls=[(10.0, 0.02)], iter="rk4", cap=6000, must_finish=True, norandom=True))
    # instantaneous quench: a break point time given twice, schedule supplied through the model's setter
    c.append(dict(tag="quench-step-down-setter", phases=[ph], D=1e-16, se=1e-5, temp=("array", [0, H(4.0), H(4.0), H(10.0)], [1010, 1010, 1000, 1000]),
                  calls=[(10.0, 0.02)], iter="euler", constraints=dict(maxNonIsothermalDT=20)))
    # a temperature step into the window 0 < chemical driving force <= strain energy (the volumetric driving force is negative there) right after nucleation
    c.append(dict(tag="strain-window-after-jump", phases=[dict(ph, strainE=1.0e8)], D=1e-16, se=1e-4, retemp=[1000, 1060], calls=[(10.0, 0.02), (5.0, 0.02)], iter="euler"))
    c.append(dict(tag="strain-window-after-jump-2", phases=[dict(ph, strainE=0.9e8)], D=1e-16, se=1e-4, retemp=[1000, 1055], calls=[(10.0, 0.02), (5.0, 0.02)], iter="rk4"))
    c.append(dict(tag="multi-strain-energy-vm-ratio-rk4", multi=True, phases=[dict(ph, strainE=2e7, VmB=1.2e-5)], calls=[(1.0, 0.02)], iter="rk4"))
    # non-spherical precipitates with a constant aspect ratio (thermodynamic and kinetic shape factors enter Rcrit, the Gibbs-Thomson
    # energy of every size class and the growth rate)
    c.append(dict(tag="needle-ar3", phases=[dict(ph, shape=("needle", 3.0))], D=1e-16, calls=[(100.0, 0.02)], iter="euler"))
    c.append(dict(tag="plate-ar2-rk4", phases=[dict(ph, shape=("plate", 2.0))], D=1e-16, calls=[(100.0, 0.02)], iter="rk4"))
    c.append(dict(tag="cubic-ar1.5-two-phases", phases=[dict(ph, shape=("cubic", 1.5)), dict(name="gamma", gamma=0.055, xe0=0.006, xb=0.2, shape=("needle", 2.0))],
                  D=1e-16, calls=[(100.0, 0.02)], iter="euler"))
    # aspect ratio that depends on the particle size (known finding C12: the critical radius is computed with the aspect ratio at the
    # PREVIOUS step's critical radius, so the radius of zero growth and Rcrit agree only up to the change of Rcrit per step)
    c.append(dict(tag="needle-ar-function", phases=[dict(ph, shape=("needle", ("linear", 1.5, 0.8)))], D=1e-16, calls=[(100.0, 0.02)], iter="euler"))
    # the second impingement-rate option of binary systems (setBetaBinary(2)), isothermal, two phases and on a ramp
    c.append(dict(tag="beta2-iso", phases=[ph], D=1e-16, beta=2, calls=[(100.0, 0.02)], iter="euler"))
    c.append(dict(tag="beta2-two-phases-rk4", phases=[ph, dict(name="gamma", gamma=0.055, xe0=0.006, xb=0.2)], D=1e-16, beta=2, calls=[(60.0, 0.02)], iter="rk4"))
    c.append(dict(tag="beta2-ramp", phases=[ph], D=1e-16, se=1e-5, beta=2, temp=("array", [0, H(300.0)], [1000, 1010]), calls=[(300.0, 0.01)], iter="euler"))
    # a ramp during which the grid is re-meshed again and again (every re-mesh rebuilds the table and restarts the temperature bookkeeping)
    c.append(dict(tag="ramp-with-remeshes", phases=[ph], D=1e-16, se=1e-5, temp=("function", [0, H(1500.0)], [1000, 1030]), calls=[(1500.0, 0.02)], iter="euler", cap=700))
    c.append(dict(tag="cooling-with-remeshes", phases=[ph], D=1e-16, se=1e-5, temp=("array", [0, H(1500.0)], [1000, 975]), calls=[(1500.0, 0.02)], iter="euler", cap=700))
    c.append(dict(tag="fast-ramp-rk4", phases=[ph], D=1e-16, se=1e-5, temp=("array", [0, H(100.0)], [1000, 1050]), calls=[(100.0, 0.02)], iter="rk4"))
    c.append(dict(tag="dissolution", phases=[ph], D=1e-16, x0=0.004, load=[(4e-10, 8e-10, 1e18)], calls=[(50.0, 0.02), (50.0, 0.02)], iter="euler"))
    c.append(dict(tag="fixed-grid", phases=[ph], D=1e-16, pbm=(1e-10, 1e-9, 60, 30, 90, False), calls=[(300.0, 0.02)], iter="euler"))
    c.append(dict(tag="small-grid-remesh", phases=[ph], D=1e-15, pbm=(1e-10, 1e-9, 24, 12, 36, True), calls=[(400.0, 0.01)], iter="euler"))
    c.append(dict(tag="above-solvus-ramp", phases=[ph], D=1e-16, se=2e-4, temp=("array", [0, H(50.0), H(300.0)], [1000, 1000, 1100]),
                  calls=[(300.0, 0.01)], iter="euler", constraints=dict(maxNonIsothermalDT=20)))
    c.append(dict(tag="two-stage-ageing", phases=[ph], D=1e-16, se=1e-5, retemp=[1000, 1025], calls=[(100.0, 0.02), (100.0, 0.02)], iter="euler"))
    c.append(dict(tag="age-then-flash-heat", phases=[ph], D=1e-15, se=3e-3, retemp=[1000, 1100], calls=[(0.0812, 0.02), (0.016, 0.05)], iter="euler"))
    c.append(dict(tag="age-then-flash-heat-rk4-2ph", phases=[ph, dict(name="gamma", gamma=0.055, xe0=0.004, xb=0.3)], D=1e-15, se=3e-3, retemp=[1000, 1100],
                  calls=[(0.0812, 0.02), (0.016, 0.05)], iter="rk4"))
    c.append(dict(tag="load-dissolve-refine-at-maxbins", phases=[ph], D=1e-16, x0=0.004, load=[(4e-10, 8e-10, 1e18)], pbm=(1e-10, 5e-9, 200, 100, 200, True),
                  calls=[(20.0, 0.02), (20.0, 0.02)], iter="euler"))
    c.append(dict(tag="strong-cooling", phases=[ph], D=1e-16, x0=0.03, xe0=0.02, se=2e-4, temp=("array", [0, H(100.0)], [1000, 950]), calls=[(100.0, 0.01)],
                  iter="euler", constraints=dict(maxNonIsothermalDT=20)))
    c.append(dict(tag="strong-heat-cool", phases=[ph], D=1e-16, x0=0.03, xe0=0.01, se=2e-4, temp=("array", [0, H(50.0), H(100.0)], [1000, 1030, 970]),
                  calls=[(100.0, 0.01)], iter="euler", constraints=dict(maxNonIsothermalDT=20)))
    c.append(dict(tag="depletion-below-mincomposition", phases=[ph], D=1e-14, x0=0.03, xe0=0.002, calls=[(10.0, 0.02), (10.0, 0.02)], iter="euler", cap=1200,
                  constraints=dict(minComposition=0.012)))
    c.append(dict(tag="ramp-constructor", phases=[ph], D=1e-16, se=1e-5, temp=("array", [0, H(300.0)], [1000, 1010]), temp_via="constructor",
                  calls=[(300.0, 0.01)], iter="euler"))
    c.append(dict(tag="function-constructor", phases=[ph], D=1e-16, se=1e-5, temp=("function", [0, H(300.0)], [1000, 990]), temp_via="constructor",
                  calls=[(300.0, 0.01)], iter="rk4"))
    # the repository's own Al-Zr set-up on the real pycalphad-backed thermodynamics (behind a pass-through logging wrapper)
    c.append(dict(tag="real-alzr-iso", real="alzr", temp=("const", 723.15), calls=[(3600.0, 0.01), (3600.0, 0.02)], iter="euler", cap=500))
    c.append(dict(tag="real-alzr-ramp", real="alzr", temp=("array", [0, 1.0], [723.15, 743.15]), calls=[(3600.0, 0.005)], iter="euler", cap=500))
    c.append(dict(tag="real-alzr-fault", real="alzr", temp=("const", 723.15), calls=[(1800.0, 0.02)], iter="rk4", faults={"drivingForce": [7, 8]}, cap=200))
    # multicomponent path (scripted ternary backend: curvature-factor growth law)
    c.append(dict(tag="multi-euler-2calls", multi=True, phases=[ph], calls=[(0.6, 0.02), (0.6, 0.02)], iter="euler"))
    c.append(dict(tag="multi-rk4", multi=True, phases=[ph], calls=[(1.0, 0.02)], iter="rk4"))
    c.append(dict(tag="multi-two-phases", multi=True, phases=[ph, dict(name="gamma", gamma=0.055, xe0=(0.005, 0.004), xb=(0.15, 0.2), w=(0.6, 1.0))],
                  calls=[(1.0, 0.02)], iter="euler"))
    c.append(dict(tag="multi-ramp-above-solvus", multi=True, phases=[ph], se2=(2e-4, 1e-4), temp=("array", [0, H(0.5), H(1.5)], [1000, 1000, 1100]),
                  calls=[(1.5, 0.02)], iter="euler", constraints=dict(maxNonIsothermalDT=50)))
    # precipitate and matrix molar volumes differ: every conversion between molar and volumetric driving force matters
    c.append(dict(tag="multi-vm-ratio-large-beta", multi=True, phases=[dict(ph, VmB=1.3e-5)], calls=[(0.6, 0.02), (0.6, 0.02)], iter="euler"))
    c.append(dict(tag="multi-vm-ratio-small-beta-rk4", multi=True, phases=[dict(ph, VmB=0.8e-5)], calls=[(1.0, 0.02)], iter="rk4"))
    c.append(dict(tag="multi-vm-ratio-two-phases", multi=True, phases=[dict(ph, VmB=1.2e-5), dict(name="gamma", gamma=0.055, xe0=(0.005, 0.004), xb=(0.15, 0.2), w=(0.6, 1.0), VmB=0.85e-5)],
                  calls=[(1.0, 0.02)], iter="euler"))
    c.append(dict(tag="multi-fault-growth", multi=True, phases=[ph], calls=[(0.5, 0.05)], iter="euler", faults={"growth": [3, 4, 20]}))
    c.append(dict(tag="multi-fault-growth-rk4", multi=True, phases=[ph], calls=[(0.5, 0.05)], iter="rk4", faults={"growth": [2, 9]}))
    c.append(dict(tag="multi-fault-after-regrid", multi=True, phases=[ph], pbm=(1e-10, 1e-9, 24, 12, 36, True), calls=[(1.0, 0.02), (1.0, 0.02)], iter="euler",
                  faults={"growth_regrid": [0, 1, 2, 3, 4, 5]}))
    c.append(dict(tag="multi-fault-after-regrid-rk4", multi=True, phases=[ph], pbm=(1e-10, 1e-9, 24, 12, 36, True), calls=[(1.0, 0.02)], iter="rk4",
                  faults={"growth_regrid": [0, 2, 4]}))
    c.append(dict(tag="multi-fault-df", multi=True, phases=[ph], calls=[(0.5, 0.05)], iter="euler", faults={"drivingForce": [4, 5]}))
    c.append(dict(tag="fault-df-early", phases=[ph], D=1e-16, calls=[(100.0, 0.05)], iter="euler", faults={"drivingForce": [3]}))
    c.append(dict(tag="fault-df-two", phases=[ph], D=1e-16, calls=[(100.0, 0.05)], iter="rk4", faults={"drivingForce": [5, 11]}))
    return c


def random_configs(rng, n):
    out = []
    base = [c_ for c_ in base_configs() if not c_.get("norandom")]
    for i in range(n):
        c = copy.deepcopy(rng.choice(base))
        c["tag"] += "-r%d" % i
        c["iter"] = rng.choice(["euler", "euler", "rk4"])
        c["D"] = rng.choice([1e-17, 1e-16, 1e-15])
        for p in c.get("phases", []):
            p["gamma"] = rng.choice([0.04, 0.05, 0.07])
        if not c.get("multi") and not c.get("real"):
            c["x0"] = c.get("x0", rng.choice([0.01, 0.02, 0.03]))
        c["calls"] = [(s * rng.choice([0.5, 1, 2]), f) for (s, f) in c["calls"]]
        if rng.random() < 0.3:
            c["pbm"] = (1e-10, 1e-9, rng.choice([24, 30, 36]), 12, 36, rng.random() < 0.7) if rng.random() < 0.5 else c.get("pbm")
            if c["pbm"] is None: del c["pbm"]
        if "faults" in c:
            c["faults"] = {k: sorted(rng.sample(range(1, 30), rng.randint(1, 2))) for k in c["faults"]}
        out.append(c)
    return out


def repo_digest():
    h = hashlib.sha1()
    import kawin as _k          # the tree actually imported (normally /repo, a scratch worktree when PYTHONPATH says so)
    for f in sorted(glob.glob(os.path.join(os.path.dirname(_k.__file__), "**", "*.py"), recursive=True)):
        if "/tests/" in f:
            continue
        h.update(f.encode()); h.update(open(f, "rb").read())
    for f in [os.path.join(VERIF, "harness", n) for n in ("kwn_drv.py", "kwn_suite.py", "fakes.py")]:
        h.update(open(f, "rb").read())
    return h.hexdigest()[:16]


def _one(cfg):
    from . import kwn_drv as K
    res = K.run(cfg)
    try:
        ev = K.project(cfg, res)
    except Exception as ex:  # noqa
        # reading the model's own parameters for the projection failed (e.g. a validation error of the library): an internal error of
        # the run, not of the machinery -- reported through the same clause as an exception during the run
        ev = [{"e": "init", "P": len(cfg.get("phases", [1])), "E": 1, "iter": cfg.get("iter", "euler"), "maxdT": 1000, "T0": 0, "isothermal": True,
               "minDens": 0, "lens0": []}, {"e": "exception", "msg": "projection: %s: %s" % (type(ex).__name__, str(ex)[:200])}]
        res["error"] = res["error"] or ("%s: %s" % (type(ex).__name__, str(ex)[:200]))
    info = {"steps": len(res["obs"].snaps), "error": res["error"], "tb": res.get("tb"), "fired": list(res["therm"].faults.fired)}
    return ev, info


def run_suite(tier, seed):
    """returns list of dict(cfg, events, info, verdict=[l, fails])"""
    os.makedirs(os.path.join(OUT, "cache"), exist_ok=True)
    key = "%s-%s-%d" % (repo_digest(), tier, seed)
    path = os.path.join(OUT, "cache", "kwnruns-%s.json" % key)
    rng = random.Random(seed)
    cfgs = base_configs() + random_configs(rng, 6 if tier == "quick" else 60)
    if os.path.exists(path):
        with open(path) as f:
            results = json.load(f)
    else:
        with cf.ProcessPoolExecutor(max_workers=min(14, len(cfgs))) as ex:
            results = list(ex.map(_one, cfgs))
        tmp = "%s.%d.tmp" % (path, os.getpid())          # (several checks may run side by side: the cache appears atomically)
        with open(tmp, "w") as f:
            json.dump(results, f)
        os.replace(tmp, path)
    traces = [r[0] for r in results]
    reached, res = T.validate("KWN_Trace", ["CONSTANTS", '  RefreshMode = "%s"' % REFRESH_MODE], traces, "kwn_tr", timeout=3000, heap="8g")
    if res.violated or reached is None:
        raise MachineryError("KWN_Trace run failed: %s\n%s" % (res.violated, res.out[-2000:]))
    out = []
    for cfg, (ev, info), v in zip(cfgs, results, reached):
        out.append({"cfg": cfg, "n_events": len(ev), "info": info, "l": v["l"], "fails": v["fails"],
                    "accepted": v["l"] == len(ev) + 1, "sample": ev[:2] + ev[-2:]})
    return {"tlc": res.as_dict(), "runs": out, "tlcres": res}
