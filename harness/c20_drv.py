"""Drivers for C20: save -> fresh model -> load -> compare; surrogate delegation / training / reload."""
import os, tempfile, json, shutil
import numpy as np
from . import kwn_drv as K
from .kwn_pairs import arr_cmp
from .fakes import FakeBinaryTherm


# ------------------------------------------------------------------ persistence
def persist_precip(cfg):
    """solve k calls, save, build a fresh model of the same configuration, load, compare everything"""
    ev = [{"e": "init", "allowed": []}]
    tmp = tempfile.mkdtemp(prefix="c20_")
    info = {"steps": 0}
    try:
        res = K.run(cfg)
        if res["error"]:
            ev.append({"e": "exception", "msg": "run: " + res["error"]}); return ev, info
        m = res["model"]
        info["steps"] = int(m.pData.n)
        # file names as users write them: a dot in the name that is not the extension (snapshots named by time)
        path = os.path.join(tmp, "model_0.25h")
        m.save(path)
        m2, th2, obs2 = K.build(cfg)
        m2.load(path)
        for name in K.ATTRS:
            ev.append({"e": "cmp", "name": name, "c": arr_cmp(getattr(m.pData, name), getattr(m2.pData, name), 0.0)})
        ev.append({"e": "cmp", "name": "n", "c": "eq" if m.pData.n == m2.pData.n else "gt"})
        for p in range(len(m.phases)):
            for attr in ("PSD", "PSDbounds", "PSDsize"):
                ev.append({"e": "cmp", "name": "%s[%d]" % (attr, p), "c": arr_cmp(getattr(m.PBM[p], attr), getattr(m2.PBM[p], attr), 0.0)})
            for attr in ("min", "max", "bins"):
                ev.append({"e": "cmp", "name": "%s[%d]" % (attr, p), "c": arr_cmp([getattr(m.PBM[p], attr)], [getattr(m2.PBM[p], attr)], 0.0)})
            # the aspect ratio of every size class is part of the current state (constant, user function, or from the strain energy)
            ev.append({"e": "cmp", "name": "eqAspectRatio[%d]" % p, "c": arr_cmp(np.asarray(m.eqAspectRatio[p], dtype=float), np.asarray(m2.eqAspectRatio[p], dtype=float), 0.0)})
        ev.append({"e": "cmp", "name": "currentX", "c": arr_cmp(np.concatenate(m.getCurrentX()[1]), np.concatenate(m2.getCurrentX()[1]), 0.0)})
        ev.append({"e": "cmp", "name": "currentTime", "c": arr_cmp([m.getCurrentX()[0]], [m2.getCurrentX()[0]], 0.0)})
        # save -> load -> save is idempotent
        path2 = os.path.join(tmp, "model_0.50h")
        m2.save(path2)
        ev.append({"e": "cmp", "name": "two-names-two-files", "c": "eq" if (os.path.exists(path + ".npz") and os.path.exists(path2 + ".npz") and len(os.listdir(tmp)) == 2) else "gt"})
        d1, d2 = dict(np.load(path + ".npz")), dict(np.load(path2 + ".npz"))
        ev.append({"e": "cmp", "name": "resave-keys", "c": "eq" if sorted(d1) == sorted(d2) else "gt"})
        for k in sorted(set(d1) & set(d2)):
            ev.append({"e": "cmp", "name": "resave:" + k, "c": arr_cmp(d1[k], d2[k], 0.0)})
    except Exception as ex:  # noqa
        ev.append({"e": "exception", "msg": "%s: %s" % (type(ex).__name__, str(ex)[:200])})
    finally:
        shutil.rmtree(tmp, ignore_errors=True)
    return ev, info


def persist_diffusion(c, record, variant="plain"):
    from . import diff_drv as D
    from kawin.solver.Solver import SolverType
    ev = [{"e": "init", "allowed": []}]
    tmp = tempfile.mkdtemp(prefix="c20_")
    info = {"steps": 0}
    try:
        def mk():
            m, th = D.build_model(c)
            if not record:
                m.disableRecording()
                m._recordedX, m._recordedTime = None, None      # what the constructor does for record=False
            return m
        m = mk()
        for ci, span in enumerate(c["calls"]):
            m.solve(float(span), solverType=SolverType.EXPLICITEULER, maxDtFrac=1)
            if variant == "on_then_off" and ci == 0:
                m.disableRecording()          # the history recorded so far is kept (documented)
        if variant == "on_then_off" and len(c["calls"]) == 1:
            m.disableRecording()
        if variant == "data_removed":
            m.removeRecordedData()
        path = os.path.join(tmp, "diff")
        m.save(path)
        m2 = mk()
        m2.load(path)
        ev.append({"e": "cmp", "name": "t", "c": arr_cmp([m.t], [m2.t], 0.0)})
        ev.append({"e": "cmp", "name": "x", "c": arr_cmp(m.x, m2.x, 0.0)})
        if m._recordedX is not None:
            ev.append({"e": "cmp", "name": "recordedX", "c": "shape" if m2._recordedX is None else arr_cmp(m._recordedX, m2._recordedX, 0.0)})
            ev.append({"e": "cmp", "name": "recordedTime", "c": "shape" if m2._recordedTime is None else arr_cmp(m._recordedTime, m2._recordedTime, 0.0)})
            info["steps"] = len(m._recordedTime)
        else:
            ev.append({"e": "cmp", "name": "recordedX-absent", "c": "eq" if m2._recordedX is None or len(m2._recordedX) == 0 else "gt"})
            info["steps"] = 2
    except Exception as ex:  # noqa
        ev.append({"e": "exception", "msg": "%s: %s" % (type(ex).__name__, str(ex)[:200])})
    finally:
        shutil.rmtree(tmp, ignore_errors=True)
    return ev, info


# ------------------------------------------------------------------ surrogate
class RecordingTherm(FakeBinaryTherm):
    """backend that records every call (method name, arguments) and its return value"""
    elements = ["A", "B"]
    phases = ["alpha", "beta", "gamma"]

    def __init__(self, **kw):
        super().__init__(**kw)
        self.calls = []

    def _rec(self, name, args, ret):
        self.calls.append((name, args, ret))
        return ret

    def getDrivingForce(self, x, T, precPhase=None, removeCache=False, **kw):
        return self._rec("getDrivingForce", (np.array(x, dtype=float).copy(), np.array(T, dtype=float).copy(), precPhase), super().getDrivingForce(x, T, precPhase, removeCache))

    def getInterfacialComposition(self, T, gExtra=0, precPhase=None):
        return self._rec("getInterfacialComposition", (np.array(T, dtype=float).copy(), np.array(gExtra, dtype=float).copy(), precPhase), super().getInterfacialComposition(T, gExtra, precPhase))

    def getInterdiffusivity(self, x, T, removeCache=True, phase=None):
        from kawin.thermo.utils import _process_xT_arrays
        xin, Tin = np.array(x, dtype=float).copy(), np.array(T, dtype=float).copy()
        x, T = _process_xT_arrays(np.asarray(x, dtype=float), np.asarray(T, dtype=float), True)
        ret = np.squeeze(2.0e-19 * (1 + x[:, 0]) * np.exp(-(1000.0 / T - 1)))
        return self._rec("getInterdiffusivity", (xin, Tin, phase), ret)

    def getTracerDiffusivity(self, x, T, removeCache=True, phase=None):
        from kawin.thermo.utils import _process_xT_arrays
        xin, Tin = np.array(x, dtype=float).copy(), np.array(T, dtype=float).copy()
        x, Tt = _process_xT_arrays(np.asarray(x, dtype=float), np.asarray(T, dtype=float), True)
        x = x[:, 0]
        ret = np.squeeze(np.stack([3.0e-19 * (1 + x) * np.exp(-(1000.0 / Tt - 1)), 5.0e-19 * (1 + 2 * x) * np.exp(-(1000.0 / Tt - 1))], axis=1))
        return self._rec("getTracerDiffusivity", (xin, Tin, phase), ret)


def same(a, b):
    try:
        if isinstance(a, tuple) or isinstance(b, tuple):
            return len(a) == len(b) and all(same(x, y) for x, y in zip(a, b))
        if a is None or b is None or isinstance(a, str) or isinstance(b, str):
            return a == b
        return bool(np.array_equal(np.squeeze(np.asarray(a, dtype=float)), np.squeeze(np.asarray(b, dtype=float))))
    except Exception:
        return False


QUERY_ARGS = {"getDrivingForce": lambda ph: (np.array([0.012, 0.02]), np.array([950.0, 1000.0])),
              "getInterdiffusivity": lambda ph: (np.array([0.012, 0.02]), np.array([950.0, 1000.0])),
              "getTracerDiffusivity": lambda ph: (np.array([0.012, 0.02]), np.array([950.0, 1000.0])),
              "getInterfacialComposition": lambda ph: (np.array([950.0, 1000.0]), np.array([500.0, 1500.0]))}
MODEL_OF = {"getDrivingForce": "drivingForce", "getInterdiffusivity": "diffusivity", "getTracerDiffusivity": "diffusivity",
            "getInterfacialComposition": "interfacialComposition"}
XS, TS, GS = np.array([0.008, 0.012, 0.02, 0.03]), np.array([900.0, 950.0, 1000.0]), np.array([250.0, 500.0, 1500.0, 4000.0])


def surrogate_history(ops, logx=False, broadcast=True):
    """ops: list of ("train", model, phase) | ("query", method, phase) | ("reload",)"""
    from kawin.thermo.Surrogate import BinarySurrogate
    th = RecordingTherm(D=1e-19)
    sur = BinarySurrogate(th)
    ev = [{"e": "init"}]
    tmp = tempfile.mkdtemp(prefix="c20s_")
    try:
        for op in ops:
            if op[0] == "train":
                _, model, ph = op
                if model == "drivingForce":
                    if broadcast: sur.trainDrivingForce(XS, TS, precPhase=ph, logX=logx)
                    else: sur.trainDrivingForce(np.tile(XS, 3), np.repeat(TS, 4), precPhase=ph, logX=logx, broadcast=False)
                elif model == "diffusivity":
                    sur.trainDiffusivity(XS, TS, phase=ph, logX=logx)
                else:
                    sur.trainInterfacialComposition(TS, GS, precPhase=ph)
                ev.append({"e": "train", "model": model, "ph": ph})
            elif op[0] == "query":
                _, q, ph = op
                kw = {"phase": ph} if q in ("getInterdiffusivity", "getTracerDiffusivity") else {"precPhase": ph}
                trained_now = {"drivingForce": ph in sur.drivingForceModels, "diffusivity": ph in sur.diffusivityModels,
                               "interfacialComposition": ph in sur.interfacialCompositionModels}[MODEL_OF[q]]
                # at training points when the model is trained (to check reproduction), otherwise generic points
                if trained_now and MODEL_OF[q] != "interfacialComposition":
                    args = (XS, 950.0 * np.ones(len(XS)))
                elif trained_now:
                    args = (950.0 * np.ones(len(GS)), GS)
                else:
                    args = QUERY_ARGS[q](ph)
                n0 = len(th.calls)
                out = getattr(sur, q)(*args, **kw)
                new = th.calls[n0:]
                e = {"e": "query", "q": q, "ph": ph, "nback": len(new), "backend": new[0][0] if len(new) == 1 else ("" if not new else "+".join(c[0] for c in new)),
                     "argsame": False, "valsame": False, "attrain": bool(trained_now), "fit": "eq"}
                if len(new) == 1:
                    e["argsame"] = same(new[0][1][:2], args) and new[0][1][2] == ph
                    e["valsame"] = same(new[0][2], out)
                if trained_now:
                    # reproduction of the training data at training points
                    ref = getattr(RecordingTherm(D=1e-19), q)(*args, **kw)
                    a = np.concatenate([np.ravel(np.asarray(v, dtype=float)) for v in (out if isinstance(out, tuple) else (out,))])
                    b = np.concatenate([np.ravel(np.asarray(v, dtype=float)) for v in (ref if isinstance(ref, tuple) else (ref,))])
                    e["fit"] = "eq" if a.shape == b.shape and np.allclose(a, b, rtol=1e-6, atol=1e-30) else "gt"
                ev.append(e)
            else:
                path = os.path.join(tmp, "sur")
                grid = {}
                OFFGRID = {"getDrivingForce": (np.array([0.010, 0.025]), np.array([925.0, 975.0])), "getInterdiffusivity": (np.array([0.010, 0.025]), np.array([925.0, 975.0])),
                           "getTracerDiffusivity": (np.array([0.010, 0.025]), np.array([925.0, 975.0])), "getInterfacialComposition": (np.array([925.0, 975.0]), np.array([700.0, 2500.0]))}

                def predictions(s):
                    o = {}
                    for q in QUERY_ARGS:
                        for ph in ("beta", "gamma", "alpha"):
                            kw = {"phase": ph} if q in ("getInterdiffusivity", "getTracerDiffusivity") else {"precPhase": ph}
                            try:
                                r = getattr(s, q)(*OFFGRID[q], **kw)
                                o[(q, ph, "off")] = np.concatenate([np.ravel(np.asarray(v, dtype=float)) for v in (r if isinstance(r, tuple) else (r,))])
                            except Exception as ex:  # noqa
                                o[(q, ph, "off")] = "exc:" + type(ex).__name__
                    for q in QUERY_ARGS:
                        for ph in ("beta", "gamma", "alpha"):
                            kw = {"phase": ph} if q in ("getInterdiffusivity", "getTracerDiffusivity") else {"precPhase": ph}
                            try:
                                r = getattr(s, q)(*QUERY_ARGS[q](ph), **kw)
                                o[(q, ph)] = np.concatenate([np.ravel(np.asarray(v, dtype=float)) for v in (r if isinstance(r, tuple) else (r,))])
                            except Exception as ex:  # noqa
                                o[(q, ph)] = "exc:" + type(ex).__name__
                    return o
                before = predictions(sur)
                sur.toJson(path)
                sur2 = BinarySurrogate(RecordingTherm(D=1e-19))
                sur2.fromJson(path)
                after = predictions(sur2)
                ok = all((isinstance(before[k], str) and before[k] == after[k]) or (not isinstance(before[k], str) and not isinstance(after[k], str) and np.allclose(before[k], after[k], rtol=1e-9, atol=1e-300)) for k in before)
                ev.append({"e": "reload", "same": "eq" if ok else "gt"})
                sur = sur2
                th = sur2.therm
    except Exception as ex:  # noqa
        ev.append({"e": "exception", "msg": "%s: %s" % (type(ex).__name__, str(ex)[:200])})
    finally:
        shutil.rmtree(tmp, ignore_errors=True)
    return ev


class RecordingTernary:
    """scripted ternary backend for MulticomponentSurrogate (diffusivities only): the off-diagonal interdiffusivities are negative,
    as they usually are; every call is recorded"""
    numElements = 3
    elements = ["A", "B", "C"]
    phases = ["alpha", "beta", "gamma"]

    def __init__(self):
        self.calls = []

    @staticmethod
    def _xT(x, T):
        x = np.atleast_2d(np.asarray(x, dtype=float))
        T = np.atleast_1d(np.asarray(T, dtype=float))
        if len(T) == 1 and len(x) > 1: T = np.repeat(T, len(x))
        if len(x) == 1 and len(T) > 1: x = np.repeat(x, len(T), axis=0)
        return x, T

    def getInterdiffusivity(self, x, T, removeCache=True, phase=None):
        xin, Tin = np.array(x, dtype=float).copy(), np.array(T, dtype=float).copy()
        x, T = self._xT(x, T)
        arr = np.exp(-150e3 / (8.314 * T))
        d = np.zeros((len(T), 2, 2))
        d[:, 0, 0] = 2.0e-4 * arr * (1 + 2 * x[:, 0]); d[:, 1, 1] = 5.0e-4 * arr * (1 + 3 * x[:, 1])
        d[:, 0, 1] = -0.8e-4 * arr * (0.5 + 4 * x[:, 0]); d[:, 1, 0] = -1.5e-4 * arr * (0.5 + 2 * x[:, 1])
        ret = np.squeeze(d)
        self.calls.append(("getInterdiffusivity", (xin, Tin, phase), ret))
        return ret

    def getTracerDiffusivity(self, x, T, removeCache=True, phase=None):
        xin, Tin = np.array(x, dtype=float).copy(), np.array(T, dtype=float).copy()
        x, T = self._xT(x, T)
        arr = np.exp(-150e3 / (8.314 * T))
        ret = np.squeeze(np.stack([1.0e-4 * arr * (1 + x[:, 0]), 2.0e-4 * arr * (1 + x[:, 1]), 5.0e-4 * arr * (1 + x[:, 0] + x[:, 1])], axis=1))
        self.calls.append(("getTracerDiffusivity", (xin, Tin, phase), ret))
        return ret


def ternary_surrogate_history(ops):
    """ops: ("train", "diffusivity", phase) | ("query", getInterdiffusivity|getTracerDiffusivity, phase) | ("reload",) on a MulticomponentSurrogate"""
    from kawin.thermo.Surrogate import MulticomponentSurrogate, generateTrainingPoints
    th = RecordingTernary()
    sur = MulticomponentSurrogate(th)
    ev = [{"e": "init"}]
    tmp = tempfile.mkdtemp(prefix="c20t_")
    xs = generateTrainingPoints(np.linspace(0.02, 0.12, 3), np.linspace(0.03, 0.15, 3))
    Ts = np.array([1000.0, 1100.0])
    try:
        for op in ops:
            if op[0] == "train":
                sur.trainDiffusivity(xs, Ts, phase=op[2])
                ev.append({"e": "train", "model": "diffusivity", "ph": op[2]})
            elif op[0] == "query":
                _, q, ph = op
                trained_now = ph in sur.diffusivityModels
                if trained_now:
                    data = sur.diffusivityData[ph]
                    args = (np.array(data["x"]), np.array(data["T"]))
                else:
                    args = (np.array([[0.05, 0.07], [0.08, 0.04]]), np.array([1050.0, 1050.0]))
                n0 = len(th.calls)
                out = getattr(sur, q)(*args, phase=ph)
                new = th.calls[n0:]
                e = {"e": "query", "q": q, "ph": ph, "nback": len(new), "backend": new[0][0] if len(new) == 1 else ("" if not new else "+".join(c[0] for c in new)),
                     "argsame": False, "valsame": False, "attrain": bool(trained_now), "fit": "eq"}
                if len(new) == 1:
                    e["argsame"] = same(new[0][1][:2], args) and new[0][1][2] == ph
                    e["valsame"] = same(new[0][2], out)
                if trained_now:
                    ref = getattr(RecordingTernary(), q)(*args, phase=ph)
                    a_, b_ = np.ravel(np.asarray(out, dtype=float)), np.ravel(np.asarray(ref, dtype=float))
                    e["fit"] = "eq" if a_.shape == b_.shape and np.allclose(a_, b_, rtol=1e-6, atol=1e-12 * float(np.max(np.abs(b_)))) else "gt"
                ev.append(e)
            else:
                path = os.path.join(tmp, "sur")
                pts = (np.array([[0.05, 0.07], [0.09, 0.10]]), np.array([1050.0, 1080.0]))

                def predictions(s_):
                    o = {}
                    for q in ("getInterdiffusivity", "getTracerDiffusivity"):
                        for ph in ("beta", "gamma", "alpha"):
                            o[(q, ph)] = np.ravel(np.asarray(getattr(s_, q)(*pts, phase=ph), dtype=float))
                    return o
                before = predictions(sur)
                sur.toJson(path)
                sur2 = MulticomponentSurrogate(RecordingTernary())
                sur2.fromJson(path)
                after = predictions(sur2)
                ok = all(np.allclose(before[k], after[k], rtol=1e-9, atol=1e-300) for k in before)
                ev.append({"e": "reload", "same": "eq" if ok else "gt"})
                sur = sur2
                th = sur2.therm
    except Exception as ex:  # noqa
        ev.append({"e": "exception", "msg": "%s: %s" % (type(ex).__name__, str(ex)[:200])})
    finally:
        shutil.rmtree(tmp, ignore_errors=True)
    return ev


def gen_ternary_histories():
    q1, q2 = ("query", "getInterdiffusivity"), ("query", "getTracerDiffusivity")
    H = []
    for ph in ("beta", "alpha"):
        tr = ("train", "diffusivity", ph)
        H.append([q1 + (ph,), tr, q1 + (ph,), q2 + (ph,), q1 + ("gamma",)])
        H.append([tr, ("reload",), q1 + (ph,), q2 + (ph,), q2 + ("gamma",)])
        H.append([tr, q1 + (ph,), ("reload",), ("reload",), q1 + (ph,)])
    H.append([("train", "diffusivity", "beta"), ("train", "diffusivity", "gamma"), ("reload",), ("query", "getInterdiffusivity", "gamma"), ("query", "getInterdiffusivity", "alpha")])
    return H


def persist_strength(cfg):
    """StrengthModel.save / load after a coupled run: stored histories are reproduced exactly"""
    from kawin.precipitation.coupling.Strength import StrengthModel
    from . import c18_drv
    ev = [{"e": "init", "allowed": []}]
    tmp = tempfile.mkdtemp(prefix="c20st_")
    info = {"steps": 0}
    try:
        m, th, obs = K.build(cfg)
        sm = c18_drv.strength_model(exp1=False)
        sm.setCoherencyParameters(0.01)
        sm.setSolidSolutionStrength({"B": 1e8}, 1)
        m.addCouplingModel(sm)
        from kawin.solver.Solver import SolverType
        for (span, maxfrac) in cfg["calls"]:
            try:
                m.solve(span, solverType=SolverType.EXPLICITEULER, maxDtFrac=maxfrac)
            except K.StepCap:
                break
        info["steps"] = len(sm.rss)
        for compressed in (True, False):
            path = os.path.join(tmp, "strength_%s.npz" % compressed)
            sm.save(path, compressed=compressed)
            sm2 = StrengthModel()
            sm2.load(path)
            for name, a, b in (("rss", sm.rss, sm2.rss), ("ls", sm.ls, sm2.ls), ("solidStrength", sm.solidStrength, sm2.solidStrength)):
                ev.append({"e": "cmp", "name": "%s(compressed=%s)" % (name, compressed), "c": arr_cmp(a, b, 0.0)})
    except Exception as ex:  # noqa
        ev.append({"e": "exception", "msg": "%s: %s" % (type(ex).__name__, str(ex)[:200])})
    finally:
        shutil.rmtree(tmp, ignore_errors=True)
    return ev, info


def reset_pair(cfg):
    """a model that was solved, reset and solved again reproduces a freshly built model's run (what TTPCalculator relies on)"""
    from kawin.solver.Solver import SolverType
    ev = [{"e": "init", "allowed": []}]
    info = {"steps": 0}
    try:
        it = SolverType.RK4 if cfg.get("iter", "euler") == "rk4" else SolverType.EXPLICITEULER

        def go(m):
            for (span, maxfrac) in cfg["calls"]:
                try:
                    m.solve(span, solverType=it, maxDtFrac=maxfrac)
                except K.StepCap:
                    break
        m1, th1, o1 = K.build(dict(cfg, cap=10 ** 9))
        go(m1)
        ref = {a: np.array(getattr(m1.pData, a)).copy() for a in K.ATTRS}
        psd_ref = [np.array(p.PSD).copy() for p in m1.PBM]
        m1.reset()
        go(m1)
        info["steps"] = int(m1.pData.n)
        for a in K.ATTRS:
            ev.append({"e": "cmp", "name": a, "c": arr_cmp(ref[a], getattr(m1.pData, a), 0.0)})
        for p in range(len(m1.phases)):
            ev.append({"e": "cmp", "name": "PSD[%d]" % p, "c": arr_cmp(psd_ref[p], m1.PBM[p].PSD, 0.0)})
    except Exception as ex:  # noqa
        ev.append({"e": "exception", "msg": "%s: %s" % (type(ex).__name__, str(ex)[:200])})
    return ev, info


# ------------------------------------------------------------------ untrained pass-through of a MulticomponentSurrogate, every method
class PassBackend:
    """scripted ternary backend with the query signatures of MulticomponentThermodynamics; every call is recorded by name and by the
    values its parameters received (whatever the call style); impingementFactor mirrors the real fall-back (previous factor / None)"""
    numElements = 3
    elements = ["A", "B", "C"]
    phases = ["alpha", "beta", "gamma"]

    def __init__(self):
        self.calls = []
        self.last_beta = {}

    def _rec(self, name, **kw):
        self.calls.append((name, {k: (np.array(v, dtype=float).tolist() if isinstance(v, (np.ndarray, list, tuple)) else v) for k, v in kw.items()}))

    def getDrivingForce(self, x, T, precPhase=None, removeCache=False, training=False):
        self._rec("getDrivingForce", x=x, T=T, precPhase=precPhase, removeCache=removeCache, training=training)
        x = np.atleast_2d(np.asarray(x, dtype=float))
        return np.squeeze(1e5 * (x[:, 0] + 0.5 * x[:, 1] - 0.01)), np.squeeze(np.tile([0.2, 0.1], (len(x), 1)))

    def getInterdiffusivity(self, x, T, removeCache=True, phase=None):
        self._rec("getInterdiffusivity", x=x, T=T, removeCache=removeCache, phase=phase)
        return 1e-17 * (1 + float(np.sum(x))) * np.eye(2)

    def getTracerDiffusivity(self, x, T, removeCache=True, phase=None):
        self._rec("getTracerDiffusivity", x=x, T=T, removeCache=removeCache, phase=phase)
        return 1e-17 * (1 + float(np.sum(x))) * np.ones(3)

    def _inside(self, x):
        return float(np.sum(x)) > 0.05

    def curvatureFactor(self, x, T, precPhase=None, removeCache=False, searchDir=None, computeSearchDir=False):
        from kawin.thermo.MultiTherm import CurvatureOutput
        self._rec("curvatureFactor", x=x, T=T, precPhase=precPhase, removeCache=removeCache, searchDir=searchDir, computeSearchDir=computeSearchDir)
        if not self._inside(x) and searchDir is None:
            return None
        s_ = float(np.sum(x))
        return CurvatureOutput(dc=np.array([1e-7, 5e-8]) * (1 + s_), mc=3e-21 * (1 + s_), gba=0.5 * np.eye(2), beta=1e-18 * (1 + s_),
                               c_eq_alpha=np.array([0.004, 0.006]), c_eq_beta=np.array([0.2, 0.1]))

    def impingementFactor(self, x, T, precPhase=None, removeCache=False, searchDir=None):
        self._rec("impingementFactor", x=x, T=T, precPhase=precPhase, removeCache=removeCache, searchDir=searchDir)
        if not self._inside(x) and searchDir is None:
            return self.last_beta.get(precPhase)
        self.last_beta[precPhase] = 1e-18 * (1 + float(np.sum(x)))
        return self.last_beta[precPhase]

    def getGrowthAndInterfacialComposition(self, x, T, dG, R, gExtra, precPhase=None, removeCache=False, searchDir=None):
        self._rec("getGrowthAndInterfacialComposition", x=x, T=T, dG=dG, R=R, gExtra=gExtra, precPhase=precPhase, removeCache=removeCache, searchDir=searchDir)
        if not self._inside(x) and searchDir is None:
            return None
        return (np.asarray(R, dtype=float) * 0 + 1e-12 * dG, np.array([0.004, 0.006]), np.array([0.2, 0.1]))


def passthrough_relations():
    """the same sequence of queries, in several call styles (keyword / positional extras), goes to a backend directly and to an UNTRAINED
    MulticomponentSurrogate wrapping a twin backend: same answers, and the twin saw the same calls (method names and parameter values)"""
    from kawin.thermo.Surrogate import MulticomponentSurrogate
    xin, xout = np.array([0.04, 0.03]), np.array([0.01, 0.01])
    sd = np.array([0.2, 0.1])
    R = np.array([1e-9, 2e-9])
    seq = []
    for ph in ("beta", "gamma"):
        seq += [("getDrivingForce", (xin, 1000.0), dict(precPhase=ph)), ("getDrivingForce", (xin, 1000.0, ph), dict(removeCache=True)),
                ("getDrivingForce", (xin, 1000.0, ph, True), {}),
                ("getInterdiffusivity", (xin, 1000.0), dict(phase=ph)), ("getTracerDiffusivity", (xin, 1000.0), dict(phase=ph, removeCache=False)),
                ("curvatureFactor", (xin, 1000.0), dict(precPhase=ph)), ("curvatureFactor", (xin, 1000.0, ph, True), {}),
                ("curvatureFactor", (xout, 1000.0, ph), dict(removeCache=True)), ("curvatureFactor", (xout, 1000.0), dict(precPhase=ph, searchDir=sd)),
                ("impingementFactor", (xout, 1000.0, ph), dict(removeCache=True)),             # nothing valid yet: None
                ("impingementFactor", (xin, 1000.0), dict(precPhase=ph)),
                ("impingementFactor", (xout, 1000.0, ph), dict(removeCache=True)),             # outside, no search direction: the previous factor
                ("impingementFactor", (xout, 1000.0, ph, True, sd), {}),
                ("getGrowthAndInterfacialComposition", (xin, 1000.0, 5e3, R, R * 0), dict(precPhase=ph)),
                ("getGrowthAndInterfacialComposition", (xout, 1000.0, 5e3, R, R * 0, ph, True), {}),
                ("getGrowthAndInterfacialComposition", (xout, 1000.0, 5e3, R, R * 0, ph), dict(searchDir=sd))]
    ev = [{"e": "init"}]
    direct, twin = PassBackend(), PassBackend()
    try:
        sur = MulticomponentSurrogate(twin)
        for k, (name, a, kw) in enumerate(seq):
            style = "%d positional%s" % (len(a), (" + " + ",".join(sorted(kw))) if kw else "")
            tag = "%s #%d (%s)" % (name, k, style)
            want = getattr(direct, name)(*a, **kw)
            n0 = len(twin.calls)
            try:
                got = getattr(sur, name)(*a, **kw)
                err = None
            except Exception as ex:  # noqa
                got, err = None, type(ex).__name__
            ev.append({"e": "rel", "group": "C20:untrained-surrogate-answers-like-backend(%s)" % name, "name": tag + ("" if err is None else " raised " + err),
                       "c": "eq" if (err is None and same(got, want)) else "gt", "want": "eq"})
            new = twin.calls[n0:]
            okc = bool(err is None and len(new) == 1 and new[0] == direct.calls[-1])
            ev.append({"e": "rel", "group": "C20:untrained-surrogate-makes-the-same-backend-call(%s)" % name, "name": tag, "c": "eq" if okc else "gt", "want": "eq"})
    except Exception as ex:  # noqa
        ev.append({"e": "exception", "msg": "%s: %s" % (type(ex).__name__, str(ex)[:200])})
    return ev
