"""Driver + observer + projection for PrecipitateModel runs (C01, C02, C03, C12f, C13, C14c, C18-coupling, C19).

A run is described by a configuration dict; the observer is registered as a coupling model (public extension point) and
is called once per accepted step after the size distribution was updated.  project() turns the raw observations into
discrete trace events (lengths, flags, three-way comparisons under the fixed tolerance table below, integer temperatures in
milli-kelvin) that KWN_Trace.tla judges.
"""
import math
import numpy as np
from kawin.precipitation import PrecipitateModel
from kawin.precipitation.PrecipitationParameters import PrecipitationData
from kawin.precipitation.parameters.Volume import VolumeParameter
from kawin.solver.Solver import SolverType
from .fakes import FakeBinaryTherm, FakeMultiTherm, FaultPlan, LoggingTherm

ATTRS = PrecipitationData.ATTRIBUTES

# ---- fixed tolerance table (quoted in evidence; never tuned per run) ----
RTOL = 1e-9          # relative agreement of two quantities that the code computes from the same arrays
RTOL_MB = 1e-8       # mass balance: involves a division by (1 - fv)
TRUNC = 1.0          # populations below one particle per class are removed (documented)


def cmp3(a, b, rtol=RTOL, atol=0.0):
    if not (math.isfinite(a) and math.isfinite(b)):
        return "nan"
    tol = atol + rtol * max(abs(a), abs(b))
    if abs(a - b) <= tol:
        return "eq"
    return "lt" if a < b else "gt"


class StepCap(Exception):
    pass


class Observer:
    """coupling model: snapshot after every accepted step"""
    def __init__(self, model, cap=1200):
        self.m = model
        self.snaps = []
        self.cap = cap
        self.pre = None
        # the distribution the step produced, before the documented removal of classes holding less than one particle
        # (harness-side wrapper on this one instance; nothing in the library is touched)
        orig = model._updateParticleSizeDistribution

        def wrapped(t, x, _orig=orig):
            self.pre = [np.array(xi, dtype=float).copy() for xi in x]
            return _orig(t, x)
        model._updateParticleSizeDistribution = wrapped

    def snapshot(self):
        m = self.m
        s = {"n": int(m.pData.n), "psd": [np.array(p.PSD, dtype=float).copy() for p in m.PBM],
             "bounds": [np.array(p.PSDbounds, dtype=float).copy() for p in m.PBM],
             "xbeta": [None if t is None else np.array(t, dtype=float).copy() for t in m.PSDXbeta],
             "xalpha": [None if t is None else np.array(t, dtype=float).copy() for t in m.PSDXalpha],
             "growth": [np.array(g, dtype=float).copy() for g in m.growth],
             "rdf": [int(v) for v in m.RdrivingForceIndex], "dTemp": float(m.dTemp),
             "lens": [len(getattr(m.pData, a)) for a in ATTRS],
             "rec": [(None if p._recordedPSD is None else (p._recordedPSD[-1].copy(), p._recordedBins[-1].copy(), float(p._recordedTime[-1]), p._recordedPSD.shape))
                     for p in m.PBM],
             "pre": None if self.pre is None else [p.copy() for p in self.pre],
             "lookups": len(m.therm.lookupT) if hasattr(m.therm, "lookupT") else 0,
             "coupled": {}}
        return s

    def updateCoupledModel(self, model):
        self.snaps.append(self.snapshot())
        if len(self.snaps) >= self.cap:
            raise StepCap()


def build(cfg):
    if cfg.get("real") == "alzr":
        return build_real_alzr(cfg)
    ph = cfg["phases"]
    names = [p["name"] for p in ph]
    per = {p["name"]: {k: p[k] for k in ("K", "xe0", "se", "xb", "xlim") if k in p} for p in ph}
    multi = bool(cfg.get("multi"))
    if multi:
        perm = {p["name"]: {k: p[k] for k in ("K", "xe0", "se", "xb", "w", "mc", "dc", "beta") if k in p} for p in ph}
        kw = dict(mc=cfg.get("mc", 3e-21), se=cfg.get("se2", (0.0, 0.0)))
        if cfg.get("swap_elements"):
            # the same alloy with the two solutes listed in the other order: every per-element parameter is reversed
            rev = lambda v: tuple(reversed(v)) if isinstance(v, (tuple, list)) else v
            defaults = dict(xe0=(0.004, 0.006), xb=(0.2, 0.1), w=(1.0, 0.5), dc=(1e-7, 5e-8))
            kw.update({k: rev(v) for k, v in defaults.items()}, se=rev(kw["se"]))
            perm = {n_: {k: (rev(v) if k in ("xe0", "se", "xb", "w", "dc") else v) for k, v in d_.items()} for n_, d_ in perm.items()}
        th = FakeMultiTherm(per_phase=perm, faults=FaultPlan(cfg.get("faults")), **kw)
    else:
        th = FakeBinaryTherm(K=cfg.get("K", 1e5), xe0=cfg.get("xe0", 0.005), se=cfg.get("se", 0.0), T0=cfg.get("T0", 1000.0),
                             xb=cfg.get("xb", 0.25), cb=cfg.get("cb", 1e-6), xlim=cfg.get("xlim", 0.3), D=cfg.get("D", 1e-17), per_phase=per, phases=names,
                             faults=FaultPlan(cfg.get("faults")))
    els = ["B", "C"] if multi else ["B"]
    temp = cfg.get("temp", ("const", 1000))
    if temp[0] == "const":
        targs = (temp[1],)
    elif temp[0] == "array":
        targs = (temp[1], temp[2])
    else:
        pts_t, pts_T = temp[1], temp[2]
        targs = (lambda t, a=pts_t, b=pts_T: float(np.interp(t / 3600.0, a, b, b[0], b[-1])),)
    if cfg.get("temp_via", "setter") == "constructor":
        from kawin.precipitation.PrecipitationParameters import TemperatureParameters
        import io, contextlib
        with contextlib.redirect_stdout(io.StringIO()):
            tp = TemperatureParameters(*targs)
        m = PrecipitateModel(phases=names, elements=els, temperatureParameters=tp)
    elif cfg.get("temp_via") in ("constructor-stepwise", "constructor-reconfigured"):
        # the parameter object is built empty (or with another schedule) and configured through its OWN setters before it is handed to the model
        from kawin.precipitation.PrecipitationParameters import TemperatureParameters
        import io, contextlib
        with contextlib.redirect_stdout(io.StringIO()):
            tp = TemperatureParameters() if cfg["temp_via"] == "constructor-stepwise" else TemperatureParameters([0, 1.0], [900, 950])
            if temp[0] == "const": tp.setIsothermalTemperature(targs[0])
            elif temp[0] == "array": tp.setTemperatureArray(targs[0], targs[1])
            else: tp.setTemperatureFunction(targs[0])
        m = PrecipitateModel(phases=names, elements=els, temperatureParameters=tp)
    elif cfg.get("temp_via") == "after-setup":
        # the schedule is supplied only AFTER setup(): until then the model holds the constant temperature the schedule starts at
        m = PrecipitateModel(phases=names, elements=els)
        m.setTemperature(float(temp[1]) if temp[0] == "const" else float(temp[2][0]))
        m._verif_late_temp = targs
    else:
        m = PrecipitateModel(phases=names, elements=els)
        import io, contextlib
        with contextlib.redirect_stdout(io.StringIO()):
            m.setTemperature(*targs)
    m.setThermodynamics(th)
    x0m = list(cfg.get("x0", [0.02, 0.015])) if multi else None
    if multi and cfg.get("swap_elements"):
        x0m = x0m[::-1]
    m.setInitialComposition(np.array(x0m) if multi else cfg.get("x0", 0.02))
    m.setVolumeAlpha(cfg.get("VmA", 1e-5), VolumeParameter.MOLAR_VOLUME, 4)
    for p in ph:
        m.setInterfacialEnergy(p.get("gamma", 0.05), p["name"])
        m.setVolumeBeta(p.get("VmB", 1e-5), VolumeParameter.MOLAR_VOLUME, 4, p["name"])
        m.setNucleationSite(p.get("site", "bulk"), p["name"])
        if "infinite" in p:
            m.setInfinitePrecipitateDiffusivity(p["infinite"], p["name"])
        if "strainE" in p:     # constant elastic strain energy per volume of precipitate (J/m3)
            from kawin.precipitation import StrainEnergy
            se_ = StrainEnergy()
            se_.setConstantElasticEnergy(float(p["strainE"]))
            m.setStrainEnergy(se_, p["name"])
        if "strainAR" in p:    # aspect ratio of every size class from the elastic strain energy (calculateAspectRatio): (shape kind, eigenstrain, G, nu)
            from kawin.precipitation import StrainEnergy
            kind, eig, G_, nu_ = p["strainAR"]
            m.setPrecipitateShape(kind, p["name"])
            se_ = StrainEnergy()
            se_.setEigenstrain(list(eig))
            se_.setModuli(G=G_, nu=nu_)
            se_.setShape("ellipsoid")
            se_.setAspectRatioResolution(0.05, 5)
            m.setStrainEnergy(se_, p["name"], calculateAspectRatio=True)
        if "strainShape" in p:    # shape dependent (ellipsoidal) strain energy with the aspect ratio GIVEN by the user ("shape" below): (eigenstrain, G, nu)
            from kawin.precipitation import StrainEnergy
            eig, G_, nu_ = p["strainShape"]
            se_ = StrainEnergy()
            se_.setEigenstrain(list(eig))
            se_.setModuli(G=G_, nu=nu_)
            m.setStrainEnergy(se_, p["name"], calculateAspectRatio=False)
        if "shape" in p:       # (kind, aspect ratio) -- a number, or ("linear", a0, slope per nm) for a size dependent aspect ratio
            kind, ar = p["shape"]
            if isinstance(ar, (list, tuple)):
                a0, sl = float(ar[1]), float(ar[2])
                ar = (lambda R, a0=a0, sl=sl: a0 + sl * np.asarray(R) / 1e-9)
            m.setPrecipitateShape(kind, p["name"], ar)
    m.setNucleationDensity(grainSize=cfg.get("grainSize", 1), dislocationDensity=cfg.get("disl", 1e15), bulkN0=cfg.get("bulkN0", 1e28))
    if "gb" in cfg:
        m.setGrainBoundaryEnergy(cfg["gb"])
    pb = cfg.get("pbm")
    if pb:
        m.setPBMParameters(cMin=pb[0], cMax=pb[1], bins=pb[2], minBins=pb[3], maxBins=pb[4], adaptive=pb[5])
    m.setPSDrecording(True)
    if cfg.get("beta"):
        m.setBetaBinary(cfg["beta"])       # documented option: impingement rate computed as in multicomponent systems
    if cfg.get("constraints"):
        m.setConstraints(**cfg["constraints"])
    obs = Observer(m, cfg.get("cap", 1200))
    m.addCouplingModel(obs)
    return m, th, obs


_REAL = {}


def build_real_alzr(cfg):
    """the repository's own Al-Zr binary set-up (kawin/tests/test_precipitation.py, example 01) behind a LoggingTherm"""
    from kawin.thermo import BinaryThermodynamics
    from kawin.tests.datasets import ALZR_TDB
    if "alzr" not in _REAL:
        t = BinaryThermodynamics(ALZR_TDB, ["AL", "ZR"], ["FCC_A1", "AL3ZR"], drivingForceMethod="tangent")
        t.setDFSamplingDensity(2000); t.setEQSamplingDensity(500)
        t.setDiffusivity(lambda T: 0.0768 * np.exp(-242000 / (8.314 * T)), "FCC_A1")
        _REAL["alzr"] = t
    th = LoggingTherm(_REAL["alzr"], FaultPlan(cfg.get("faults")))
    _REAL["alzr"].clearCache()
    m = PrecipitateModel(phases=["AL3ZR"], elements=["ZR"])
    pb = cfg.get("pbm", (1e-10, 1e-8, 75, 50, 100, True))
    m.setPBMParameters(cMin=pb[0], cMax=pb[1], bins=pb[2], minBins=pb[3], maxBins=pb[4], adaptive=pb[5])
    m.setInitialComposition(cfg.get("x0", 4e-3))
    temp = cfg.get("temp", ("const", 723.15))
    import io, contextlib
    with contextlib.redirect_stdout(io.StringIO()):
        if temp[0] == "const": m.setTemperature(temp[1])
        else: m.setTemperature(temp[1], temp[2])
    m.setInterfacialEnergy(0.1)
    Va = 0.405e-9 ** 3
    m.setVolumeAlpha(Va, VolumeParameter.ATOMIC_VOLUME, 4)
    m.setVolumeBeta(Va, VolumeParameter.ATOMIC_VOLUME, 4)
    m.setNucleationDensity(grainSize=1, dislocationDensity=1e15)
    m.setNucleationSite("dislocations")
    m.setThermodynamics(th)
    m.setPSDrecording(True)
    if cfg.get("constraints"):
        m.setConstraints(**cfg["constraints"])
    obs = Observer(m, cfg.get("cap", 1200))
    m.addCouplingModel(obs)
    return m, th, obs


def sched(cfg, t):
    if cfg.get("retemp"):
        # constant temperature re-specified before every solve call: the row at a call boundary belongs to the earlier call
        acc = 0.0
        for (span, _), T in zip(cfg["calls"], cfg["retemp"]):
            acc += span
            if t <= acc * (1 + 1e-12):
                return float(T)
        return float(cfg["retemp"][-1])
    temp = cfg.get("temp", ("const", 1000))
    if temp[0] == "const":
        return float(temp[1])
    return float(np.interp(t / 3600.0, temp[1], temp[2], temp[2][0], temp[2][-1]))


def run(cfg):
    """returns dict(model, therm, obs, error, ends)"""
    out = {"error": None, "ends": []}
    m, th, obs = build(cfg)
    out.update(model=m, therm=th, obs=obs)
    it = SolverType.RK4 if cfg.get("iter", "euler") == "rk4" else SolverType.EXPLICITEULER
    try:
        if cfg.get("prelude"):
            # the model object is RE-USED: it is set up (and briefly solved) with another grain boundary energy first, then reset,
            # given the configuration's own value, and run as usual -- anything remembered from the first life must not survive
            pre = cfg["prelude"]
            m.setGrainBoundaryEnergy(pre["gb"])
            m.setup()
            for p_ in range(len(m.phases)):
                float(m.precipitateParameters[p_].nucleation.areaFactor)
            if pre.get("span"):
                try:
                    m.solve(pre["span"], solverType=it, maxDtFrac=0.2)
                except StepCap:
                    pass
            m.reset()
            m.setGrainBoundaryEnergy(cfg.get("gb", 0.3))
            pb = cfg.get("pbm")
            if pb:
                m.setPBMParameters(cMin=pb[0], cMax=pb[1], bins=pb[2], minBins=pb[3], maxBins=pb[4], adaptive=pb[5])
            m.setPSDrecording(True)
            obs.snaps = []
            obs.pre = None
        first = True
        for ci, (span, maxfrac) in enumerate(cfg["calls"]):
            if cfg.get("retemp"):
                m.setTemperature(cfg["retemp"][ci])
            if first:
                m.setup()      # idempotent public call; table builds made here belong to row 0, not to the first step
                if hasattr(m, "_verif_late_temp"):
                    import io, contextlib
                    with contextlib.redirect_stdout(io.StringIO()):
                        m.setTemperature(*m._verif_late_temp)
                out["lookups0"] = len(getattr(th, "lookupT", []))
                out["bins0"] = [int(p.bins) for p in m.PBM]
            if first and cfg.get("load"):
                ld = cfg["load"]
                for pi, (r0, r1, dens) in enumerate(ld):
                    pbm = m.PBM[pi]
                    psd = np.zeros(pbm.bins)
                    sel = (pbm.PSDsize >= r0) & (pbm.PSDsize <= r1)
                    psd[sel] = dens
                    pbm.PSD = psd
            first = False
            n0 = m.pData.n
            t_start = float(m.pData.time[m.pData.n])
            m.solve(span, solverType=it, minDtFrac=cfg.get("minfrac", 1e-8), maxDtFrac=maxfrac)
            out["ends"].append((n0, int(m.pData.n), t_start, span, float(m.pData.time[m.pData.n])))
    except StepCap:
        out["capped"] = True
    except Exception as ex:  # noqa
        import traceback
        out["error"] = "%s: %s" % (type(ex).__name__, str(ex)[:300])
        out["tb"] = traceback.format_exc()[-1500:]
    return out


def moment(psd, bounds, k, w=None):
    c = 0.5 * (bounds[:-1] + bounds[1:])
    v = psd * c ** k
    if w is not None:
        v = v * w
    return float(np.sum(v))


def project(cfg, res):
    """discrete trace of a run.  First event = init record."""
    m, th, obs = res["model"], res["therm"], res["obs"]
    d = m.pData
    P, E = len(m.phases), m.numberOfElements
    mk = lambda T: int(round(T * 1000))
    maxdT = m.constraints.maxTempChange
    ev = [{"e": "init", "P": P, "E": E, "iter": cfg.get("iter", "euler"), "maxdT": mk(maxdT), "T0": mk(float(d.temperature[0])),
           "isothermal": bool(m.temperatureParameters._isIsothermal), "minDens": 0,
           "lens0": [len(getattr(d, a)) >= 1 for a in ATTRS]}]
    snaps = obs.snaps
    volf = [m.precipitateParameters[p].nucleation.volumeFactor for p in range(P)]
    ratio = [m.matrixParameters.volume.Vm / m.precipitateParameters[p].volume.Vm for p in range(P)]
    x0 = np.atleast_1d(np.array(m.matrixParameters.initComposition, dtype=float))
    ends = {e[1]: e for e in res["ends"]}
    starts = {e[0] for e in res["ends"]}
    prev = None
    lookups_before = res.get("lookups0", 0)
    # lookups made during setup (row 0)
    for k, s in enumerate(snaps):
        n = s["n"]
        if n != k + 1:
            ev.append({"e": "misaligned", "n": n, "k": k + 1})
            break
        row = {a: np.array(getattr(d, a)[n], dtype=float) for a in ATTRS}
        prow = {a: np.array(getattr(d, a)[n - 1], dtype=float) for a in ATTRS}
        t, tp = float(row["time"]), float(prow["time"])
        dt = t - tp
        e = {"e": "step", "n": n, "lens": s["lens"], "tcmp": cmp3(t, tp, rtol=0.0),
             # (the row recorded by setup() is judged with the first step)
             "finite": bool(all(np.all(np.isfinite(row[a])) for a in ATTRS) and (n != 1 or all(np.all(np.isfinite(getattr(d, a)[0])) for a in ATTRS))),
             "T": mk(float(row["temperature"])), "Tsched": cmp3(float(row["temperature"]), sched(cfg, t), rtol=1e-12),
             "newcall": (n - 1) in starts}
        # --- the recorded equilibrium compositions (binary, scripted closure with a temperature dependent solvus): the temperature
        #     they were computed at is recovered from xEqAlpha = xe(T*); it must lie within maxTempChange of the row's temperature
        e["xeqfresh"] = True
        if E == 1 and hasattr(th, "_pp") and hasattr(th, "xe") and not cfg.get("multi"):
            for p_ in range(P):
                se_ = float(th._pp(m.phases[p_], "se"))
                xa = float(np.atleast_1d(row["xEqAlpha"][p_])[0])
                if se_ != 0.0 and xa > 0:
                    tstar = float(th.T0) + (xa - float(th._pp(m.phases[p_], "xe0"))) / se_
                    if abs(tstar - float(row["temperature"])) > maxdT * (1 + 1e-9) + 1e-6:
                        e["xeqfresh"] = False
        # --- lookup table builds observed during this step (binary): list of [phase index, milli-kelvin, full?]
        built = []
        if hasattr(th, "lookupT"):
            for (pname, Tl, size) in th.lookupT[lookups_before:s["lookups"]]:
                pi = list(m.phases).index(pname)
                nprev = len(prev["bounds"][pi]) if prev is not None else res.get("bins0", [0] * P)[pi] + 1
                built.append([pi + 1, mk(Tl), bool(size in (len(s["bounds"][pi]), nprev))])
            lookups_before = s["lookups"]
        e["built"] = built
        e["xeqcmp"] = []
        ph = []
        sumfv, sumfc = 0.0, np.zeros(E)
        for p in range(P):
            rec = s["rec"][p]
            rpsd, rbins = rec[0], rec[1]
            nb = int(np.count_nonzero(rbins)) if np.count_nonzero(rbins) else 0
            # the recorded arrays are padded with zeros; a grid starting at 0 is not used by the drivers
            bnds = rbins[:nb]
            psd = rpsd[:nb - 1]
            # the model resets the whole size distribution (without recording it) when the precipitate became unstable
            reset_step = bool(rec[2] != t)
            skipmom = False
            if reset_step:
                if prev is not None and float(np.sum(prev["psd"][p])) == 0.0:
                    bnds, psd = s["bounds"][p], s["psd"][p]     # nothing was there before: the statistics must describe the (empty) stored distribution
                    nb = len(bnds)
                else:
                    skipmom = True                               # first step of the reset: the distribution the row describes was discarded
            K = len(psd)
            ctr = 0.5 * (bnds[:-1] + bnds[1:])
            rmax = float(bnds[-1])
            dens, ravg, vf = float(row["precipitateDensity"][p]), float(row["Ravg"][p]), float(row["volFrac"][p])
            M0, M1, M3 = moment(psd, bnds, 0), moment(psd, bnds, 1), moment(psd, bnds, 3)
            rv = ratio[p] * volf[p]
            below = dens < m.constraints.minNucleateDensity
            q = {"below": bool(below), "resetstep": reset_step,
                 "dens": "eq" if skipmom else cmp3(dens, M0, atol=TRUNC * K),
                 "ravg": "eq" if (below and ravg == 0) or skipmom else cmp3(ravg * dens, M1, atol=TRUNC * K * rmax),
                 "vf": "eq" if (below and vf == 0) or skipmom else cmp3(vf, min(rv * M3, 1.0), atol=rv * TRUNC * K * rmax ** 3),
                 "psdnonneg": bool(np.all(s["psd"][p] >= 0) and np.all(psd >= 0)),
                 "vfrange": bool(0.0 <= vf <= 1.0), "radnonneg": bool(ravg >= 0 and float(row["Rcrit"][p]) >= 0 and float(row["Rnuc"][p]) >= 0),
                 "dgsign": int(np.sign(row["drivingForce"][p])), "ratezero": bool(row["nucRate"][p] == 0),
                 "ratenonneg": bool(row["nucRate"][p] >= 0),
                 "gridlen": bool(len(s["psd"][p]) + 1 == len(s["bounds"][p]) == len(s["growth"][p])),
                 "tablen": bool(s["xbeta"][p] is None or len(s["xbeta"][p]) == len(s["bounds"][p]))}
            # documented removal: a class is removed only if it held less than one particle -- and not less than none
            pre = s.get("pre")
            if pre is not None and len(pre[p]) == len(rpsd[:max(nb - 1, 0)]) and not reset_step and nb > 1:
                pp = pre[p]
                q["removed01"] = bool(np.all(pp >= -1e-6 * max(1.0, float(np.max(pp)))))
                want = np.where(pp < 1, 0.0, pp)
                q["clipok"] = bool(np.array_equal(want, rpsd[:nb - 1]))
            else:
                q["removed01"], q["clipok"] = True, True
            # the precipitate composition tabulated for every size class is the backend's answer for THIS phase at that class's Gibbs-Thomson
            # energy (scripted binary closure: x_beta = xb(phase) + cb(phase) * g; unstable classes carry the sentinel / zero and are skipped)
            q["xbtab"] = True
            if E == 1 and hasattr(th, "_pp") and not cfg.get("multi") and s["xbeta"][p] is not None and len(s["xbeta"][p]) == len(s["bounds"][p]):
                tb = np.asarray(s["xbeta"][p], dtype=float)[:, 0]
                ta = np.asarray(s["xalpha"][p], dtype=float)[:, 0] if s.get("xalpha") is not None and s["xalpha"][p] is not None else None
                gcl = np.asarray(m.particleGibbs(np.asarray(s["bounds"][p], dtype=float), m.phases[p]), dtype=float)
                want_b = float(th._pp(m.phases[p], "xb")) + float(th._pp(m.phases[p], "cb")) * gcl
                live = tb > 0
                live[0] = False            # (as built: the first boundary carries the value of the second, _createLookupBinary evaluates PSDbounds[1:] only)
                live[:int(s["rdf"][p]) + 1] = False        # (as built: classes reported unstable carry the value of the first stable class)
                q["xbtab"] = bool(np.allclose(tb[live], want_b[live], rtol=1e-9, atol=0))
            # precipitate solute content: table in force during the step = snapshot at the end of the previous step
            tab = (prev["xbeta"][p] if prev is not None else None)
            fc = np.array(row["fconc"][p], dtype=float)
            q["fconc"] = []
            # (with a size-independent precipitate composition the table is constant, and the content is the same weighted moment
            #  whether it is recomputed every step or integrated over the history, with either iterator)
            const_xb = bool(hasattr(th, "_pp") and not cfg.get("multi") and float(th._pp(m.phases[p], "cb")) == 0.0 and float(th._pp(m.phases[p], "se")) == 0.0)
            if tab is not None and len(tab) == nb and not reset_step and ((m.precipitateParameters[p].infinitePrecipitateDiffusion and cfg.get("iter", "euler") == "euler") or const_xb):
                mid = 0.5 * (tab[:-1] + tab[1:])
                for el in range(E):
                    expct = 0.0 if below else rv * moment(psd, bnds, 3, mid[:, el])
                    q["fconc"].append(cmp3(float(fc[el]), expct, atol=rv * TRUNC * K * rmax ** 3))
            # density law (Euler): M0(x_n) <= M0(stored PSD_{n-1}) + nucRate_{n-1} * dt
            if prev is not None and cfg.get("iter", "euler") == "euler" and len(prev["psd"][p]) == K and not reset_step:
                lhs = M0
                rhs = float(np.sum(prev["psd"][p])) + float(prow["nucRate"][p]) * dt
                c = cmp3(lhs, rhs, rtol=1e-9)
                q["denslaw"] = c
                q["nuczero"] = bool(prow["nucRate"][p] == 0)
            # coarse form of the density law, judged on EVERY step (also across a change of the size classes, which conserves the third moment
            # and not the number: a few per cent at most in every run of the suites): the number density does not double beyond what nucleation supplies
            if prev is not None:
                nprev = float(prow["precipitateDensity"][p])
                supply = max(float(prow["nucRate"][p]), float(row["nucRate"][p])) * dt
                q["densdouble"] = bool(nprev > 1e3 and float(row["precipitateDensity"][p]) > 2.0 * (nprev + supply))
            else:
                q["densdouble"] = False
            # growth sign vs critical radius (classes of the grid in force after the step)
            g = s["growth"][p]
            rc = float(row["Rcrit"][p])
            clamped = bool(rc <= m.precipitateParameters[p].Rmin * (1 + 1e-12)) or row["drivingForce"][p] <= 0
            sg, sgw = [], []
            # a lookup table may lag the temperature by up to maxTempChange (documented refresh rule, C13); with the scripted
            # closure that moves the radius of zero growth by |se| maxTempChange / (x - xe(T)) relative to Rcrit: the band in
            # which a class counts as "at" the critical radius is 10 % or twice that lag, whichever is larger
            wband = 0.1
            if hasattr(th, "_pp") and hasattr(th, "xe") and np.ndim(row["composition"]) <= 1 and E == 1:
                pname = m.phases[p]
                sup = float(np.atleast_1d(row["composition"])[0]) - float(th.xe(float(row["temperature"]), pname))
                lag = abs(float(th._pp(pname, "se"))) * maxdT / sup if sup > 0 else 1.0
                wband = max(0.1, 2 * lag / (1 - lag)) if lag < 0.5 else None
            if not clamped and len(g) == len(s["bounds"][p]):
                for bi, (R, gi) in enumerate(zip(s["bounds"][p], g)):
                    if bi <= s["rdf"][p]:
                        continue      # radii at which the precipitate is reported unstable are outside the law's range
                    rel = cmp3(float(R), rc, rtol=1e-6)
                    sg.append([rel, int(np.sign(gi))])
                    if wband is not None:
                        sgw.append([cmp3(float(R), rc, rtol=wband), int(np.sign(gi))])      # classes within the band count as "at" Rcrit
            q["gsign"] = [list(t) for t in sorted(set((a, b) for a, b in sg))]
            q["gsignw"] = [list(t) for t in sorted(set((a, b) for a, b in sgw))]
            q["rdf"] = s["rdf"][p]
            ph.append(q)
            sumfv += vf
            sumfc += fc
        e["ph"] = ph
        e["sumfv"] = bool(sumfv <= 1.0 + 1e-12)
        comp = np.atleast_1d(row["composition"])
        e["comprange"] = bool(np.all(comp >= 0) and np.all(comp <= 1))
        for a_ in ("xEqAlpha", "xEqBeta"):        # the recorded interfacial (equilibrium) compositions are compositions too
            v_ = np.asarray(row[a_], dtype=float)
            e["comprange"] = bool(e["comprange"] and np.all(v_ >= 0) and np.all(v_ <= 1))
        mb = []
        for el in range(E):
            # the documented clamp: a NEGATIVE balance result is replaced by minComposition (nothing else may be overwritten)
            raw = (float(x0[el]) - float(sumfc[el])) / (1 - sumfv) if sumfv < 1 else float("nan")
            clampd = bool(comp[el] == m.constraints.minComposition and raw < 0)
            # total precipitate fraction saturated at 1 (the run has blown up numerically): the code documents that the matrix
            # composition is then left as it is; outside the property's domain (DESIGN 3/C02), still subject to the C03 clauses
            if sumfv >= 1.0 - 1e-12:
                clampd = True
            lhs = float(x0[el])
            rhs = (1 - sumfv) * float(comp[el]) + float(sumfc[el])
            mb.append({"cmp": cmp3(lhs, rhs, rtol=RTOL_MB, atol=1e-15), "clamped": clampd})
        e["mb"] = mb
        e["dTemp"] = mk(s["dTemp"])
        if n in ends:
            en = ends[n]
            e["end"] = {"tend": cmp3(t, en[2] + en[3], rtol=4e-16)}
        ev.append(e)
        prev = s
    if res["error"]:
        ev.append({"e": "exception", "msg": res["error"]})
    elif res.get("capped"):
        # a run that needs a small fraction of its step budget on the code as it stands must reach its end time within that budget
        if cfg.get("must_finish") and len(ev) > 1 and ev[-1].get("e") == "step":
            ev[-1]["stalled"] = True
        ev.append({"e": "done", "n": len(snaps), "rows": len(snaps)})
    else:
        ev.append({"e": "done", "n": int(d.n), "rows": len(snaps)})
    return ev
