"""Driver for ModelConfig.tla: histories of setter calls and reset()+setup() on one PrecipitateModel (scripted binary backend).

Inputs are identifiers (the spec's constants); after every setup the derived data the model works with are read and stamped with the
inputs they were computed from, by comparison with freshly built models (canonical setter order) for the inputs in force now and
earlier in the history."""
import itertools
import numpy as np
from kawin.precipitation import VolumeParameter
from kawin.Constants import AVOGADROS_NUMBER
from . import kwn_drv as K

VMA = {"a1": 1.0e-5, "a2": 7.0e-6}
VMB = {"b1": 1.0e-5, "b2": 1.3e-5}
GAM = {"g1": 0.05, "g2": 0.08}
SITES = ["bulk", "dislocations", "grain boundaries", "grain edges", "grain corners"]
GBE = {"e1": 0.03, "e2": 0.06}
GRAIN = {"d1": 10.0, "d2": 50.0}
DISL = {"r1": 1.0e14, "r2": 5.0e14}
X0 = {"x1": 0.02, "x2": 0.03}
BULK = {"auto": None, "n1": 1.0e27, "n2": 3.0e26}
SHAPE = {"sphere": ("sphere", 1), "needle2": ("needle", 2.0), "plate3": ("plate", 3.0)}
GBS = ("grain boundaries", "grain edges", "grain corners")
FIELDS = {"vmA": VMA, "vmB": VMB, "gamma": GAM, "site": {s: s for s in SITES}, "gbe": GBE, "grain": GRAIN, "disl": DISL, "x0": X0, "bulk": BULK, "shape": SHAPE,
          "vmB2": VMB, "gamma2": GAM, "site2": {s: s for s in SITES}, "shape2": SHAPE}
PH2 = ("vmB2", "gamma2", "site2", "shape2")
NAMES = ("beta", "gamma")


def ph(i, k):
    """the inputs of phase k (1 or 2) as a record with the field names of the first phase"""
    return {"vmB": i["vmB"], "gamma": i["gamma"], "site": i["site"], "shape": i["shape"]} if k == 1 else \
           {"vmB": i["vmB2"], "gamma": i["gamma2"], "site": i["site2"], "shape": i["shape2"]}


def all_admissible(i):
    return admissible(i["site"], i["shape"]) and (i["np"] == 1 or admissible(i["site2"], i["shape2"]))
RTOL = 1e-9


def admissible(site, shape):
    return shape == "sphere" or site not in GBS


def cfg_of(i):
    phases = [dict(name=NAMES[k - 1], gamma=GAM[ph(i, k)["gamma"]], site=ph(i, k)["site"], VmB=VMB[ph(i, k)["vmB"]], shape=SHAPE[ph(i, k)["shape"]]) for k in range(1, i["np"] + 1)]
    return dict(phases=phases, VmA=VMA[i["vmA"]],
                gb=GBE[i["gbe"]], grainSize=GRAIN[i["grain"]], disl=DISL[i["disl"]], bulkN0=BULK[i["bulk"]], x0=X0[i["x0"]], D=1e-16, calls=[(1.0, 0.5)])


def read(m):
    x = [np.zeros(b.bins) for b in m.PBM]
    out = {"x": float(np.atleast_1d(m.pData.composition[0])[0])}
    for k in range(len(m.phases)):
        n = m.precipitateParameters[k].nucleation
        sfx = "" if k == 0 else "2"
        out["pool" + sfx] = float(m._calcNucleationSites(0, x, k))
        out["factors" + sfx] = (float(n.areaFactor), float(n.volumeFactor))
        out["gibbs" + sfx] = float(np.atleast_1d(m.particleGibbs(2e-9, NAMES[k]))[0])
    return out


_FRESH = {}


def fresh(i):
    """what a freshly built ONE-phase model (canonical setter order) derives for the global inputs and first-phase inputs of i
    (the specification's dependency sets: what is derived for a phase depends on the global inputs and on its own inputs only)"""
    i = dict(i, np=1, vmB2=i["vmB"], gamma2=i["gamma"], site2="bulk", shape2="sphere")
    key = tuple(sorted(i.items()))
    if key not in _FRESH:
        m, th, obs = K.build(cfg_of(i))
        m.setup()
        _FRESH[key] = read(m)
    return _FRESH[key]


# the spec's dependency sets (ModelConfig.tla PoolOf / FactorsOf / GibbsOf), as JSON-able stamps
def pool_stamp(i):
    s = i["site"]
    if s == "bulk": return ["bulk", "auto", i["x0"], i["vmA"]] if i["bulk"] == "auto" else ["bulk", "user", i["bulk"]]
    if s == "dislocations": return ["disl", i["vmA"], i["disl"]]
    if s == "grain boundaries": return ["gbarea", i["vmA"], i["grain"]]
    if s == "grain edges": return ["gbedge", i["vmA"], i["grain"]]
    return ["gbcorner", i["grain"]]


def factors_stamp(i, gbe):
    return [i["site"], i["gamma"], gbe] if i["site"] in GBS else ["spherical nucleus"]


def close(a, b):
    a, b = np.atleast_1d(np.asarray(a, dtype=float)), np.atleast_1d(np.asarray(b, dtype=float))
    return bool(a.shape == b.shape and np.all(np.abs(a - b) <= RTOL * np.maximum(np.abs(a), np.abs(b))))


def as_first(i, k):
    """the record whose first phase carries the inputs of phase k of i"""
    return dict(i, **ph(i, k))


def stamp(obs, cur, seen):
    """recognise what every observed datum was computed from: the inputs in force (first) or inputs seen earlier in the history
    (for the data of a phase also: the OTHER phase's inputs, now or earlier)"""
    out = {}
    for k in (1, 2):
        sfx = "" if k == 1 else "2"
        if k > cur["np"]:
            out["pool2"] = out["factors2"] = out["gibbs2"] = ["absent"]
            continue
        other = 3 - k
        cands = [as_first(cur, k)] + [as_first(s_, k) for s_ in reversed(seen)]
        if cur["np"] == 2:
            cands += [as_first(cur, other)] + [as_first(s_, other) for s_ in reversed(seen)]
        for name, mk in (("pool", pool_stamp), ("gibbs", lambda i: [i["gamma"], i["vmB"], i["shape"]])):
            out[name + sfx] = ["unknown", repr(obs[name + sfx])]
            for c in cands:
                if admissible(c["site"], c["shape"]) and close(obs[name + sfx], fresh(c)[name]):
                    out[name + sfx] = mk(c)
                    break
        out["factors" + sfx] = ["unknown", repr(obs["factors" + sfx])]
        gbes = [cur["gbe"]] + [g for g in GBE if g != cur["gbe"]]
        done = False
        for c in cands:
            for g in gbes:
                c2 = dict(c, gbe=g)
                if not admissible(c2["site"], c2["shape"]):
                    continue
                if close(obs["factors" + sfx], fresh(c2)["factors"]):
                    out["factors" + sfx] = factors_stamp(c2, g)
                    done = True
                    break
            if done:
                break
    out["x"] = ["unknown", repr(obs["x"])]
    for c in [cur] + list(reversed(seen)):
        if close(obs["x"], X0[c["x0"]]):
            out["x"] = [c["x0"]]
            break
    return out


def apply_set(m, field, arg, cur, how=0):
    name = "beta"
    if field in PH2:
        field, name = field[:-1], "gamma"
    elif how % 5 == 4 and field in ("vmB", "gamma", "site", "shape"):
        name = None                   # documented: no phase name = the first precipitate phase
    if field == "vmA":
        v = VMA[arg]
        if how % 3 == 0: m.setVolumeAlpha(v, VolumeParameter.MOLAR_VOLUME, 4)
        elif how % 3 == 1: m.setVolumeAlpha(4 * v / AVOGADROS_NUMBER, VolumeParameter.ATOMIC_VOLUME, 4)      # documented: volume of the unit cell
        else: m.setVolumeAlpha((4 * v / AVOGADROS_NUMBER) ** (1.0 / 3.0), VolumeParameter.LATTICE_PARAMETER, 4)
    elif field == "vmB":
        v = VMB[arg]
        if how % 2 == 0: m.setVolumeBeta(v, VolumeParameter.MOLAR_VOLUME, 4, name)
        else: m.setVolumeBeta(4 * v / AVOGADROS_NUMBER, VolumeParameter.ATOMIC_VOLUME, 4, name)
    elif field == "gamma": m.setInterfacialEnergy(GAM[arg], name)
    elif field == "site": m.setNucleationSite(arg, name)
    elif field == "gbe": m.setGrainBoundaryEnergy(GBE[arg])
    elif field == "grain": m.setNucleationDensity(grainSize=GRAIN[arg], dislocationDensity=DISL[cur["disl"]], bulkN0=BULK[cur["bulk"]])
    elif field == "disl": m.setNucleationDensity(grainSize=GRAIN[cur["grain"]], dislocationDensity=DISL[arg], bulkN0=BULK[cur["bulk"]])
    elif field == "bulk": m.setNucleationDensity(grainSize=GRAIN[cur["grain"]], dislocationDensity=DISL[cur["disl"]], bulkN0=BULK[arg])
    elif field == "x0": m.setInitialComposition(X0[arg])
    elif field == "shape": m.setPrecipitateShape(SHAPE[arg][0], name, SHAPE[arg][1])


def run_history(init, ops, how=0, first_setup=True):
    """ops: ("set", field, id) | ("setup",).  first_setup False: the model is configured but setup() is only called by the first
    ("setup",) of the history (setters before the very first setup)."""
    ev = [{"e": "init", "inp": dict(init)}]
    cur = dict(init)
    seen = [dict(init)]
    try:
        m, th, obs = K.build(cfg_of(init))
        if first_setup:
            m.setup()
            read(m)            # everything has been evaluated once before anything changes
        for k, op in enumerate(ops):
            if op[0] == "set":
                nxt = dict(cur, **{op[1]: op[2]})
                if not all_admissible(nxt) or (op[1] == "bulk" and op[2] == "auto") or (op[1] in PH2 and cur["np"] == 1):
                    continue          # validate() refuses the combination / a user-defined bulk density cannot be withdrawn: not part of the histories
                apply_set(m, op[1], op[2], cur, how + k)
                cur = nxt
                seen.append(dict(cur))
                ev.append({"e": "set", "field": op[1], "arg": op[2]})
            else:
                m.reset()
                m.setup()
                o = read(m)
                ev.append({"e": "setup", "obs": stamp(o, cur, seen), "raw": {k2: (list(v) if isinstance(v, tuple) else v) for k2, v in o.items()}})
    except Exception as ex:  # noqa
        ev.append({"e": "exception", "msg": "%s: %s" % (type(ex).__name__, str(ex)[:200])})
    return ev


def gen_histories(rng, tier):
    setters = [("set", f, a) for f, tab in FIELDS.items() for a in tab if not (f == "bulk" and a == "auto")]
    one = [s_ for s_ in setters if s_[1] not in PH2]
    base = dict(vmA="a1", vmB="b1", gamma="g1", site="bulk", gbe="e1", grain="d1", disl="r1", x0="x1", bulk="auto", shape="sphere",
                vmB2="b1", gamma2="g1", site2="bulk", shape2="sphere", np=1)
    inits = [dict(base, site=site) for site in SITES]
    inits.append(dict(base, vmA="a2", vmB="b2", gamma="g2", site="dislocations", gbe="e2", grain="d2", disl="r2", x0="x2", bulk="n1", shape="needle2"))
    two = [dict(base, np=2, site="grain boundaries", site2="dislocations", vmB2="b2", gamma2="g2", shape2="plate3"),
           dict(base, np=2, site="bulk", site2="grain edges", shape="needle2"),
           dict(base, np=2, site="grain corners", site2="grain boundaries", gamma2="g2", gbe="e2")]
    hist = []
    # one setter then setup, from every starting site type; two setters then setup from two of them
    for i0 in inits:
        for s in one:
            hist.append((i0, [s, ("setup",)], True))
    for i0 in (inits[2], inits[1]):
        for s1, s2 in itertools.product(one, repeat=2):
            if s1[1] != s2[1] and (tier != "quick" or rng.random() < 0.25):
                hist.append((i0, [s1, s2, ("setup",)], True))
    # two phases: every setter (of either phase, or global) then setup
    for i0 in two:
        for s in setters:
            hist.append((i0, [s, ("setup",)], True))
    # setters before the very first setup
    for i0 in inits[:3] + two[:1]:
        for s in (setters if i0["np"] == 2 else one):
            hist.append((i0, [s, ("setup",)], False))
    # longer seeded histories with several setups
    for _ in range(150 if tier == "quick" else 1500):
        i0 = rng.choice(inits + two + two)
        ops = []
        for _k in range(rng.randint(3, 8)):
            ops.append(rng.choice(setters if i0["np"] == 2 else one) if rng.random() < 0.7 else ("setup",))
        hist.append((i0, ops + [("setup",)], rng.random() < 0.7))
    return hist
