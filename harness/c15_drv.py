"""Drivers for C15: ShapeFactor histories (Shape.tla / Shape_Trace.tla), the critical-radius bisection (Shape_Eval.tla) and the
stated geometric identities (Relations.tla, observation level)."""
import itertools, math
from fractions import Fraction as Fr
import numpy as np
from kawin.precipitation.parameters import ShapeFactors as SF
from kawin.precipitation.parameters.ShapeFactors import ShapeFactor
from .kwn_drv import cmp3

KINDS = {"sphere": SF.SphereDescription, "needle": SF.NeedleDescription, "plate": SF.PlateDescription, "cubic": SF.CuboidalDescription}
NUM = {0: 0.5, 1: 1.0, 3: 3.0}
RQ = 2.0e-9


def fn1(R):
    return 1.5 + np.atleast_1d(R) / 1e-9 * 0.25 if np.ndim(R) else 1.5 + R / 1e-9 * 0.25


def ar_value(a):
    return NUM[a[1]] if a[0] == "num" else fn1


def observe(sf, counter):
    kind = {"SPHERE": "sphere", "NEEDLE": "needle", "PLATE": "plate", "CUBIC": "cubic"}.get(type(sf.description).name, "unknown")
    if getattr(sf.aspectRatio, "__func__", None) is ShapeFactor._scalarAspectRatioEquation:
        v = float(sf._aspectRatioScalar)
        cls = [k for k, x in NUM.items() if x == v]
        ar = ["num", cls[0] if cls else -1]
    else:
        ar = ["fn", 1 if sf.aspectRatio is fn1 else -1]
    finder = "scalar" if getattr(sf.findRcrit, "__func__", None) is ShapeFactor._findRcritScalar else "bisect"
    return {"kind": kind, "ar": ar, "finder": finder, "fired": counter[0]}


def effective(sf, obs):
    """the aspect ratio the factor functions used, recovered from the returned semi-axes"""
    r = np.asarray(sf.normalRadii(RQ), dtype=float).ravel()
    k = obs["kind"]
    if k == "sphere":
        ratio = r[2] / r[0]
    elif k == "plate":
        ratio = r[0] / r[2]
    else:
        ratio = r[2] / r[0]
    if obs["ar"][0] == "fn" and k != "sphere":
        want = max(float(np.squeeze(fn1(RQ))), 1.0)
        return ["fn", 1] if abs(ratio - want) <= 1e-9 * want else ["num", -1]
    for cls, v in NUM.items():
        if abs(ratio - v) <= 1e-9:
            return ["num", cls]
    return ["num", -1]


ALPHABET = ([("setShape", k, a, inst) for k in KINDS for a in (("num", 0), ("num", 1), ("num", 3), ("fn", 1)) for inst in (False, True)]
            + [("setAr", None, a, None) for a in (("num", 0), ("num", 1), ("num", 3), ("fn", 1))] + [("query", None, None, None)]
            + [("swapDesc", k, None, None) for k in KINDS])


def run_history(ops):
    ev = [{"e": "init"}]
    try:
        sf = ShapeFactor()
        counter = [0]
        sf._updateCallbacks.append(lambda c=counter: c.__setitem__(0, c[0] + 1))
        for (op, k, a, inst) in ops:
            e = {"e": "op", "op": op}
            if op == "setShape":
                sf.setPrecipitateShape(KINDS[k]() if inst else k, ar_value(a))
                e.update(kind=k, ar=list(a), inst=bool(inst))
            elif op == "setAr":
                sf.setAspectRatio(ar_value(a))
                e.update(ar=list(a))
            elif op == "swapDesc":
                sf.description = KINDS[k]()               # the public property setter
                e.update(kind=k)
            o = observe(sf, counter)
            if op == "query":
                o["eff"] = effective(sf, o)
                # the critical-radius search for the shape in force: R = Rs * thermoFactor(R) (constant aspect ratio: exactly; function: to 1e-3)
                rs_, rm_ = 1.0e-9, 2.0e-8
                rc = float(np.squeeze(sf.findRcrit(rs_, rm_)))
                res_ = abs(rc / (rs_ * float(np.squeeze(sf.thermoFactor(rc)))) - 1.0)
                o["rootok"] = bool(res_ <= (1e-9 if o["finder"] == "scalar" else 1e-3))
            e["obs"] = o
            ev.append(e)
    except Exception as ex:  # noqa
        ev.append({"e": "exception", "msg": "%s: %s" % (type(ex).__name__, str(ex)[:200])})
    return ev


def gen_histories(rng, tier):
    hist = []
    L = 2 if tier == "quick" else 3
    for n in range(1, L + 1):
        for seq in itertools.product(ALPHABET, repeat=n):
            hist.append(list(seq) + [("query", None, None, None)])
    for _ in range(400 if tier == "quick" else 4000):
        hist.append([rng.choice(ALPHABET) for _ in range(rng.randint(3, 7))] + [("query", None, None, None)])
    return hist


# ------------------------------------------------------------------------------------------------------------- bisection
def rat(f):
    f = Fr(f)
    return [f.numerator, f.denominator]


def bisection_cases(rng, tier):
    cases = []
    for rs, rm, a, b, t in itertools.product((1, 2, 3), (4, 8, 16), (Fr(1), Fr(3, 2), Fr(2), Fr(3)), (Fr(0), Fr(1, 16), Fr(1, 8), Fr(1, 4)), (Fr(1, 4), Fr(1, 16), Fr(1, 64))):
        if 1 - rs * b > 0:
            cases.append(dict(rs=Fr(rs), rm=Fr(rm), a=a, b=b, tol=t))
    # seeded cases: kept coarse (integer Rs, span <= 16, tolerance >= 1/32) so that the exact evaluation stays within 32-bit integers
    for _ in range(200 if tier == "quick" else 2000):
        rs = Fr(rng.randint(1, 6))
        rm = rs + Fr(rng.randint(1, 16))
        a = Fr(rng.randint(4, 16), 4)
        b = Fr(rng.randint(0, 3), 16)
        if 1 - rs * b > 0:
            cases.append(dict(rs=rs, rm=rm, a=a, b=b, tol=Fr(1, rng.choice([4, 8, 16, 32]))))
    return cases


def run_bisection(c):
    """the real _findRcrit with the object's thermoFactor replaced by the affine function (instance attribute)"""
    sf = ShapeFactor("needle", fn1)
    calls = [0]
    a, b = float(c["a"]), float(c["b"])

    def tf(R, calls=calls):
        calls[0] += 1
        return a + b * R
    sf.thermoFactor = tf
    sf.tol = float(c["tol"])
    try:
        r = sf.findRcrit(float(c["rs"]), float(c["rm"]))
        return {"r": float(r), "n": calls[0] - 3}
    except Exception as ex:  # noqa
        return {"exc": "%s: %s" % (type(ex).__name__, ex)}


# ------------------------------------------------------------------------------------------------------------- identities
def rel(group, name, a, b, want, rtol=1e-9, atol=0.0):
    return {"e": "rel", "group": group, "name": name, "c": cmp3(float(a), float(b), rtol=rtol, atol=atol), "want": want}


def spheroid_area(a, c):
    """surface area of the spheroid x^2/a^2 + y^2/a^2 + z^2/c^2 = 1 by numerical quadrature of the surface of revolution"""
    from scipy.integrate import quad
    f = lambda t: 2 * math.pi * a * math.sin(t) * math.sqrt(a * a * math.cos(t) ** 2 + c * c * math.sin(t) ** 2)
    return quad(f, 0, math.pi, epsabs=0, epsrel=1e-12, limit=400)[0]


def ellipsoid_capacitance(a, b, c):
    """C = 2 / int_0^inf dt / sqrt((a^2+t)(b^2+t)(c^2+t))  (in units where a sphere of radius R has C = R)"""
    from scipy.integrate import quad
    f = lambda u: 1.0 / math.sqrt((a * a + u) * (b * b + u) * (c * c + u))
    s = max(a, b, c) ** 2
    i1 = quad(f, 0, s, epsabs=0, epsrel=1e-12, limit=400)[0]
    g = lambda w: f(1.0 / w) / (w * w)          # u = 1/w on (s, inf)
    i2 = quad(g, 0, 1.0 / s, epsabs=0, epsrel=1e-12, limit=400)[0]
    return 2.0 / (i1 + i2)


def shape_relations(rng, tier):
    ev = [{"e": "init"}]
    try:
        ars = [1.0, 1.0 + 1e-9, 1.0 + 1e-6, 1.001, 1.1, 1.5, 2.0, 3.0, 5.0, 10.0, 30.0] + [rng.uniform(1.0, 20.0) for _ in range(6 if tier == "quick" else 60)]
        ars += [50.0, 72.0, 85.0, 100.0] + [rng.uniform(20.0, 100.0) for _ in range(4 if tier == "quick" else 40)]      # the documented range of aspect ratios ends at 100
        for name, D in KINDS.items():
            d = D()
            prev = None
            for ar in sorted(ars):
                tag = "%s ar=%.9g" % (name, ar)
                r = np.asarray(d.normalRadii(ar), dtype=float).ravel()
                vol = (4 * math.pi / 3 if name != "cubic" else 1.0) * r[0] * r[1] * r[2]
                ev.append(rel("C15:unit-volume", tag, vol, 1.0, "eq", rtol=1e-12))
                ratio = (r[0] / r[2]) if name == "plate" else (r[2] / r[0])
                ev.append(rel("C15:requested-aspect-ratio", tag, ratio, 1.0 if name == "sphere" else ar, "eq", rtol=1e-12))
                if name in ("needle", "plate"):
                    a_, c_ = (r[0], r[2])            # equatorial semi-axis, polar semi-axis (needle: c > a, plate: c < a)
                    R0 = (3 / (4 * math.pi)) ** (1 / 3)       # sphere of unit volume
                    ev.append(rel("C15:thermo=area-ratio", tag, float(d.thermoFactor(ar)), spheroid_area(a_, c_) / (4 * math.pi * R0 * R0), "eq", rtol=1e-8))
                    ev.append(rel("C15:kinetic=capacitance-ratio", tag, float(d.kineticFactor(ar)), ellipsoid_capacitance(r[0], r[1], r[2]) / R0, "eq", rtol=1e-7))
                    vals = (float(d.eqRadiusFactor(ar)), float(d.kineticFactor(ar)), float(d.thermoFactor(ar)))
                    if prev is not None and ar > prev[0] * (1 + 1e-5):
                        for nm, v, pv in zip(("eqRadius", "kinetic", "thermo"), vals, prev[1]):
                            ev.append(rel("C15:%s-factor-increases" % nm, tag, v, pv, "ge", rtol=1e-12))
                    prev = (ar, vals)
            # at aspect ratio 1: value 1 (needle, plate, sphere) and continuity (all shapes, all factors)
            for f in ("eqRadiusFactor", "kineticFactor", "thermoFactor"):
                g = getattr(d, f)
                if name != "cubic":
                    ev.append(rel("C15:factor=1-at-aspect-ratio-1", "%s %s" % (name, f), float(g(1.0)), 1.0, "eq", rtol=1e-12))
                ev.append(rel("C15:continuous-at-aspect-ratio-1", "%s %s" % (name, f), float(g(1.0 + 1e-7)), float(g(1.0)), "eq", rtol=2e-6))
            ev.append(rel("C15:continuous-at-aspect-ratio-1", "%s normalRadii" % name, float(np.max(np.abs(np.ravel(d.normalRadii(1.0 + 1e-7)) - np.ravel(d.normalRadii(1.0))))), 0.0, "eq", atol=1e-6))
            # scalar = array, below 1 = 1, caller's array untouched (float and integer arrays, 0-d arrays, lists)
            arr = np.array([0.25, 1.0, 1.7, 4.0])
            for f in ("eqRadiusFactor", "kineticFactor", "thermoFactor", "normalRadii"):
                g = getattr(d, f)
                keep = arr.copy()
                out = np.asarray(g(arr), dtype=float)
                ev.append({"e": "rel", "group": "C15:callers-array-untouched", "name": "%s %s" % (name, f), "c": "eq" if np.array_equal(arr, keep) else "lt", "want": "eq"})
                arr = keep.copy()
                for i, v in enumerate(keep):
                    ev.append(rel("C15:scalar=array", "%s %s[%d]" % (name, f, i), float(np.max(np.abs(np.ravel(out[i]) - np.ravel(g(float(v)))))), 0.0, "eq", atol=1e-14))
                # array layouts whose entries are not ordered: peak in the middle, equal ends, clipped ends, constant, descending
                for lay in ([2.0, 4.0, 2.0], [0.5, 2.0, 4.0, 0.8], [1.0, 3.0, 1.0], [2.5, 2.5, 2.5], [6.0, 3.0, 1.5, 1.0], [1.2, 5.0, 3.0, 1.2, 7.0, 1.2]):
                    la = np.array(lay)
                    lo = np.asarray(g(la), dtype=float)
                    worst = max(float(np.max(np.abs(np.ravel(lo[i]) - np.ravel(g(float(v)))))) for i, v in enumerate(lay))
                    ev.append(rel("C15:scalar=array", "%s %s%s" % (name, f, lay), worst, 0.0, "eq", atol=1e-14))
                ev.append(rel("C15:below-1-treated-as-1", "%s %s" % (name, f), float(np.max(np.abs(np.ravel(g(0.25)) - np.ravel(g(1.0))))), 0.0, "eq", atol=1e-14))
                iarr = np.array([0, 1, 2, 3])
                ikeep = iarr.copy()
                try:
                    g(iarr)
                    ok = np.array_equal(iarr, ikeep)
                except Exception:
                    ok = False
                ev.append({"e": "rel", "group": "C15:callers-array-untouched", "name": "%s %s (integer array)" % (name, f), "c": "eq" if ok else "lt", "want": "eq"})
        # through the ShapeFactor front end: an aspect-ratio function that peaks inside the radius grid, evaluated on the grid and point by point
        Rg = np.linspace(0.5e-9, 7.5e-9, 15)
        for name in ("needle", "plate", "cubic"):
            sfp = ShapeFactor(name, lambda R: 4.0 - np.abs(np.asarray(R) - 4e-9) / 1e-9)
            for f in ("eqRadiusFactor", "kineticFactor", "thermoFactor", "normalRadii"):
                whole = np.asarray(getattr(sfp, f)(Rg), dtype=float)
                worst = max(float(np.max(np.abs(np.ravel(whole[i]) - np.ravel(getattr(sfp, f)(float(r)))))) for i, r in enumerate(Rg))
                ev.append(rel("C15:scalar=array", "ShapeFactor(%s, peaked aspect ratio) %s" % (name, f), worst, 0.0, "eq", atol=1e-14))
        # critical-radius search with real factor functions: R = Rs * thermoFactor(ar(R)) to the tolerance, whenever bracketed
        for name in ("needle", "plate", "cubic"):
            for k in range(4 if tier == "quick" else 30):
                slope, rs = rng.uniform(0.05, 1.5), rng.uniform(0.3e-9, 3e-9)
                fn = lambda R, s=slope: 1.0 + s * np.asarray(R) / 1e-9
                sf = ShapeFactor(name, fn)
                rmax = rs * rng.uniform(5, 50)
                fa = rs / (rs * float(sf.thermoFactor(rs))) - 1
                fb = rmax / (rs * float(sf.thermoFactor(rmax))) - 1
                if fa * fb < 0:
                    r = float(sf.findRcrit(rs, rmax))
                    resid = abs(r / (rs * float(sf.thermoFactor(r))) - 1)
                    ev.append({"e": "rel", "group": "C15:search-returns-root-when-bracketed", "name": "%s #%d" % (name, k), "c": "eq" if (resid <= sf.tol and rs <= r <= rmax) else "gt", "want": "eq"})
            sfc = ShapeFactor(name, 2.5)
            ev.append(rel("C15:search(scalar aspect ratio)", name, float(sfc.findRcrit(1e-9, 1e-7)), 1e-9 * float(sfc.thermoFactor(1e-9)), "eq", rtol=1e-12))
    except Exception as ex:  # noqa
        ev.append({"e": "exception", "msg": "%s: %s" % (type(ex).__name__, str(ex)[:300])})
    return ev
