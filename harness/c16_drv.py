"""Drivers for C16: histories of setter / update / compute calls on real StrainEnergy objects (Elastic.tla / Elastic_Trace.tla)
and the stated identities of the Eshelby strain energy (Relations.tla, observation level)."""
import itertools, math
import numpy as np
from kawin.precipitation.parameters import ElasticFactors as EF
from kawin.precipitation.parameters.ElasticFactors import StrainEnergy
from .kwn_drv import cmp3

TH = 0.3
GRID = 32          # midpoint rule over the whole sphere (128 x 64 cells): symmetric by construction, error O(h^2)
GRIDTOL = 2e-3


def rz(a):
    return np.array([[math.cos(a), -math.sin(a), 0.0], [math.sin(a), math.cos(a), 0.0], [0.0, 0.0, 1.0]])


STIFF = {"C1": (168.4e9, 121.4e9, 75.4e9), "C2": (250.0e9, 150.0e9, 110.0e9)}
ROTS = {"I": np.eye(3), "R1": rz(TH), "R2": rz(2 * TH)}
EIGS = {"e1": [0.01, 0.01, 0.03], "e2": 0.02, "e3": [[0.01, 0.004, 0.0], [0.004, 0.02, 0.0], [0.0, 0.0, -0.01]]}


def eig_mat(e):
    v = np.array(EIGS[e], dtype=float)
    return v * np.identity(3) if v.ndim == 0 else (np.diag(v) if v.ndim == 1 else v)


def eig_stamp(t):
    """which of the supplied eigenstrains the object holds"""
    t = np.asarray(t, dtype=float)
    if t.shape != (3, 3):
        return "unknown"
    if not t.any():
        return "zero"
    for e in EIGS:
        if np.allclose(t, eig_mat(e), rtol=1e-12, atol=0):
            return e
    return "unknown"
STRESS = {"s1": [1.0e8, 0.0, 3.0e7]}
SHAPES = {"constant": "constant", "sphere": "sphere", "cube": "cube", "ellipsoid": "ellipsoid"}
RADII = np.array([2.0e-9, 1.0e-9, 1.0e-9])


def c4(name):
    return EF.convert2To4rankTensor(EF.elasticConstantToC(*STIFF[name]))


CAND = {(c, r): EF.rotateRank4Tensor(ROTS[r], c4(c)) for c in STIFF for r in ROTS}


def stamp4(t):
    t = np.asarray(t, dtype=float)
    if not t.any():
        return ["zero", "I"]
    for (c, r), cand in CAND.items():
        if np.allclose(t, cand, rtol=1e-9, atol=1e-3):
            return [c, r]
    return ["unknown", "?"]


def stress_stamp(t):
    t = np.asarray(t, dtype=float)
    if not t.any():
        return "zero", 0
    for sid, s in STRESS.items():
        base = np.diag(s)
        for k in range(0, 13):
            if np.allclose(t, EF.rotateRank2Tensor(rz(k * TH), base), rtol=1e-9, atol=1e-3):
                return sid, k
    return "unknown", -1


def shape_of(se):
    return {"CONSTANT": "constant", "SPHERE": "sphere", "CUBE": "cube", "ELLIPSOID": "ellipsoid"}.get(type(se.description).name, "unknown")


def apply(se, op, arg, how=0):
    if op == "setC":
        if how % 2 == 0: se.setElasticConstants(*STIFF[arg])
        else: se.setElasticTensor(EF.elasticConstantToC(*STIFF[arg]))              # 6x6 route
    elif op == "setP":
        if how % 2 == 0: se.setElasticConsantsPrecipitate(*STIFF[arg])
        else: se.setElasticTensorPrecipitate(EF.elasticConstantToC(*STIFF[arg]))
    elif op == "setRot": se.setRotationMatrix(ROTS[arg])
    elif op == "setRotP": se.setRotationPrecipitate(ROTS[arg])
    elif op == "setEig": se.setEigenstrain(EIGS[arg])
    elif op == "setStress": se.setAppliedStress(STRESS[arg])
    elif op == "setShape": se.setShape(arg)
    elif op == "update": se.update()
    elif op == "compute": return float(se.compute(RADII))
    return None


def apply_other(other, op, arg):
    """a call on a SECOND live object: nothing it is given may reach the observed one"""
    if op == "otherEig": other.setEigenstrain(EIGS[arg])
    elif op == "otherC": other.setElasticConstants(*STIFF[arg])
    elif op == "otherStress": other.setAppliedStress(STRESS[arg])


def canonical_energy(cur, shape):
    """fresh object, inputs supplied in canonical order: rotations, stiffnesses, shape, eigenstrain"""
    se = StrainEnergy()
    se.setRotationMatrix(ROTS[cur["rot"]])
    se.setRotationPrecipitate(ROTS[cur["rotP"]])
    if cur["C"] != "zero": se.setElasticConstants(*STIFF[cur["C"]])
    if cur["P"] != "zero": se.setElasticConsantsPrecipitate(*STIFF[cur["P"]])
    se.setShape(shape)
    if cur["eig"] != "zero": se.setEigenstrain(EIGS[cur["eig"]])
    return float(se.compute(RADII))


ALPHABET = ([("setC", c) for c in STIFF] + [("setP", c) for c in STIFF] + [("setRot", r) for r in ROTS] + [("setRotP", r) for r in ROTS]
            + [("setEig", e) for e in EIGS] + [("setStress", s) for s in STRESS] + [("setShape", s) for s in ("sphere", "cube", "ellipsoid", "constant")]
            + [("update", ""), ("compute", "")]
            + [("otherEig", e) for e in ("e1", "e2")] + [("otherC", "C2"), ("otherStress", "s1")])


def run_history(ops, how=0):
    ev = [{"e": "init"}]
    cur = {"C": "zero", "P": "zero", "rot": "I", "rotP": "I", "eig": "zero"}
    try:
        se = StrainEnergy()
        other = StrainEnergy()
        for i, (op, arg) in enumerate(ops):
            # compute with a shape but no matrix stiffness is outside C16 ("for any mechanically stable stiffness tensors"): not called
            if op == "compute" and cur["C"] == "zero" and shape_of(se) != "constant":
                continue
            val = apply_other(other, op, arg) if op.startswith("other") else apply(se, op, arg, how + i)
            if op == "setC": cur["C"] = arg
            elif op == "setP": cur["P"] = arg
            elif op == "setRot": cur["rot"] = arg
            elif op == "setRotP": cur["rotP"] = arg
            elif op == "setEig": cur["eig"] = arg
            sid, k = stress_stamp(se.params.appliedStress)
            e = {"e": "op", "op": op, "arg": arg, "obs": {"dC": stamp4(se.params.cMatrix_4th), "dP": stamp4(se.params.cPrec_4th),
                                                         "shape": shape_of(se), "sId": sid, "sAngle": k,
                                                         "eId": eig_stamp(se.params.eigenstrain)}, "cmp": "eq"}
            if op == "compute":
                want = canonical_energy(cur, shape_of(se))
                e["cmp"] = cmp3(val, want, rtol=1e-9, atol=1e-40)
                e["value"], e["canonical"] = val, want
            ev.append(e)
    except Exception as ex:  # noqa
        ev.append({"e": "exception", "msg": "%s: %s" % (type(ex).__name__, str(ex)[:200])})
    return ev


def gen_histories(rng, tier):
    """every history of <= L operations followed by compute, plus seeded longer ones"""
    L = 2 if tier == "quick" else 3
    hist = []
    for n in range(0, L + 1):
        for seq in itertools.product(ALPHABET, repeat=n):
            hist.append(list(seq) + [("compute", "")])
    for _ in range(600 if tier == "quick" else 6000):
        seq = [rng.choice(ALPHABET) for _ in range(rng.randint(3, 7))]
        hist.append(seq + [("compute", "")])
    # configure, compute, change ONE input, compute again on the same object (anything remembered from the first
    # evaluation must not survive the change), for every shape and with and without a rotation / a precipitate stiffness
    for shape in ("ellipsoid", "sphere", "cube"):
        for pre in ([("setC", "C1")], [("setRot", "R1"), ("setC", "C1")], [("setC", "C1"), ("setP", "C2")], [("setC", "C2"), ("setRotP", "R2"), ("setP", "C1")]):
            base = [("setShape", shape)] + pre + [("setEig", "e1"), ("compute", "")]
            for op in ALPHABET:
                if op[0] == "compute":
                    continue
                hist.append(base + [op, ("compute", "")])
                if tier != "quick":
                    for op2 in ALPHABET:
                        if op2[0] != "compute":
                            hist.append(base + [op, ("compute", ""), op2, ("compute", "")])
    return hist


# ---------------------------------------------------------------------------------------------------------------------------
def rel(group, name, a, b, want, rtol=1e-9, atol=0.0):
    return {"e": "rel", "group": group, "name": name, "c": cmp3(float(a), float(b), rtol=rtol, atol=atol), "want": want}


def random_rotation(rng):
    q = np.array([rng.gauss(0, 1) for _ in range(4)])
    q /= np.linalg.norm(q)
    a, b, c, d = q
    return np.array([[a * a + b * b - c * c - d * d, 2 * (b * c - a * d), 2 * (b * d + a * c)],
                     [2 * (b * c + a * d), a * a - b * b + c * c - d * d, 2 * (c * d - a * b)],
                     [2 * (b * d - a * c), 2 * (c * d + a * b), a * a - b * b - c * c + d * d]])


def energy_relations(rng, tier):
    """the stated identities, each as a three-way comparison under a fixed tolerance"""
    ev = [{"e": "init"}]
    n = 6 if tier == "quick" else 40
    try:
        for i in range(n):
            # mechanically stable cubic stiffness: c11 > |c12|, c11 + 2 c12 > 0, c44 > 0
            c12 = rng.uniform(40e9, 160e9); c11 = c12 + rng.uniform(20e9, 120e9); c44 = rng.uniform(20e9, 120e9)
            p12 = rng.uniform(40e9, 160e9); p11 = p12 + rng.uniform(20e9, 120e9); p44 = rng.uniform(20e9, 120e9)
            eig = [rng.uniform(-0.03, 0.03) for _ in range(3)]
            r = np.array([rng.uniform(0.5e-9, 5e-9) for _ in range(3)])
            tag = "case %d" % i

            def mk(prec=True, eigv=eig, rot=None, sixbysix=False, ohm="quick", quad="lebedev"):
                se = StrainEnergy()
                se.setEllipsoidal()
                if quad == "grid":
                    se.description.setIntegrationIntervals(4 * GRID, 2 * GRID, assumeSymmetric=False)
                if ohm != "quick":
                    se.description.setOhmInverseFunction(ohm)
                if rot is not None:
                    se.setRotationMatrix(rot)
                if sixbysix: se.setElasticTensor(EF.elasticConstantToC(c11, c12, c44))
                else: se.setElasticConstants(c11, c12, c44)
                if prec:
                    if sixbysix: se.setElasticTensorPrecipitate(EF.elasticConstantToC(p11, p12, p44))
                    else: se.setElasticConsantsPrecipitate(p11, p12, p44)
                se.setEigenstrain(eigv)
                se.update()
                return se
            se = mk()
            d = se.description
            E = float(se.compute(r))
            ev.append({"e": "rel", "group": "C16:energy-nonnegative", "name": tag, "c": "eq" if (math.isfinite(E) and E >= -1e-30) else "lt", "want": "eq"})
            s = rng.uniform(1.5, 4.0)
            ev.append(rel("C16:cube-of-size-scaling", tag, float(se.compute(s * r)), s ** 3 * E, "eq", rtol=1e-9))
            k = rng.uniform(1.5, 3.0)
            ev.append(rel("C16:square-of-eigenstrain", tag, float(mk(eigv=[k * v for v in eig]).compute(r)), k * k * E, "eq", rtol=1e-9))
            ev.append(rel("C16:6x6=4th-rank(input)", tag, float(mk(sixbysix=True).compute(r)), E, "eq", rtol=1e-9))
            ev.append(rel("C16:6x6=4th-rank(bohm)", tag, float(d.strainEnergyBohm2ndRank(r)), float(d.strainEnergyBohm(r)), "eq", rtol=1e-7))
            dg = mk(quad="grid").description
            ev.append(rel("C16:6x6=4th-rank(bohm)[grid quadrature]", tag, float(dg.strainEnergyBohm2ndRank(r)), float(dg.strainEnergyBohm(r)), "eq", rtol=1e-7))
            ev.append(rel("C16:6x6=4th-rank(homogeneous)", tag, float(d.strainEnergyEllipsoid2ndRank(r)), float(d.strainEnergyEllipsoid(r)), "eq", rtol=1e-7))
            ev.append(rel("C16:inversion-routines-agree", tag, float(mk(ohm="numpy").compute(r)), E, "eq", rtol=1e-8))
            # shear eigenstrain and a general rotation of the cubic matrix (both couple normal and shear components): the four routines
            # (4th rank / 6x6, homogeneous / Bohm) on the symmetric grid and on the default rule
            sh = [[eig[0], 0.4 * eig[1], 0.0], [0.4 * eig[1], eig[1], 0.2 * eig[2]], [0.0, 0.2 * eig[2], eig[2]]]
            rot = random_rotation(rng)
            for qd in ("grid", "lebedev"):
                for nm, kw in (("shear eigenstrain", dict(eigv=sh, prec=False)), ("general rotation", dict(rot=rot, prec=False)),
                               ("shear eigenstrain, different precipitate stiffness", dict(eigv=sh, prec=True)),
                               ("general rotation, different precipitate stiffness", dict(rot=rot, prec=True))):
                    dd = mk(quad=qd, **kw).description
                    e4, e2 = float(dd.strainEnergyEllipsoid(r)), float(dd.strainEnergyEllipsoid2ndRank(r))
                    b4, b2 = float(dd.strainEnergyBohm(r)), float(dd.strainEnergyBohm2ndRank(r))
                    ev.append(rel("C16:6x6=4th-rank(homogeneous)[%s, %s]" % (nm, qd), tag, e2, e4, "eq", rtol=1e-9))
                    ev.append(rel("C16:6x6=4th-rank(bohm)[%s, %s]" % (nm, qd), tag, b2, b4, "eq", rtol=1e-9))
                    if not kw["prec"]:
                        ev.append(rel("C16:bohm-reduces-to-homogeneous[%s, %s]" % (nm, qd), tag, b4, e4, "eq", rtol=1e-9))
            ev.append(rel("C16:invert4rankTensor(double contraction)", tag,
                          float(np.max(np.abs(np.tensordot(EF.invert4rankTensor(EF.convert2To4rankTensor(EF.elasticConstantToC(c11, c12, c44))),
                                                           EF.convert2To4rankTensor(EF.elasticConstantToC(c11, c12, c44)), axes=[[2, 3], [0, 1]])
                                               - 0.5 * (np.einsum("ik,jl->ijkl", np.eye(3), np.eye(3)) + np.einsum("il,jk->ijkl", np.eye(3), np.eye(3)))))), 0.0, "eq", atol=1e-9))
            hom = mk(prec=False)
            ev.append(rel("C16:bohm-reduces-to-homogeneous", tag, float(hom.description.strainEnergyBohm(r)), float(hom.description.strainEnergyEllipsoid(r)), "eq", rtol=1e-8))
            # isotropic matrix + sphere: closed form, spherical approximation, orientation independence
            Em, nu = rng.uniform(50e9, 300e9), rng.uniform(0.15, 0.4)
            G = Em / (2 * (1 + nu))
            eps = rng.uniform(0.002, 0.03)
            R0 = rng.uniform(0.5e-9, 5e-9)
            V = 4 * math.pi / 3 * R0 ** 3
            closed = 2 * G * (1 + nu) / (1 - nu) * eps ** 2 * V

            def iso(shape, rot=None, quad="lebedev"):
                s_ = StrainEnergy()
                s_.setShape(shape)
                if quad == "grid" and shape == "ellipsoid":
                    s_.description.setIntegrationIntervals(4 * GRID, 2 * GRID, assumeSymmetric=False)
                if rot is not None: s_.setRotationMatrix(rot)
                s_.setModuli(E=Em, nu=nu)
                s_.setEigenstrain(eps)
                s_.update()
                return s_
            ev.append(rel("C16:isotropic-sphere-closed-form(eshelby)", tag, float(iso("ellipsoid").compute([R0, R0, R0])), closed, "eq", rtol=1e-6))
            ev.append(rel("C16:isotropic-sphere-closed-form(spherical-approximation)", tag, float(iso("sphere").compute([R0, R0, R0])), closed, "eq", rtol=1e-6))
            rot = random_rotation(rng)
            ev.append(rel("C16:orientation-independent(isotropic)", tag, float(iso("ellipsoid", rot).compute(r)), float(iso("ellipsoid").compute(r)), "eq", rtol=1e-7))
            # Eshelby tensor of a sphere in an isotropic matrix
            si = iso("ellipsoid")
            S = si.description.Sijmn(si.description.Dijkl(np.array([R0, R0, R0]), si.params.cMatrix_4th))
            sg = iso("ellipsoid", quad="grid")
            Sg = sg.description.Sijmn(sg.description.Dijkl(np.array([R0, R0, R0]), sg.params.cMatrix_4th))
            for nm, idx, val in (("S1111", (0, 0, 0, 0), (7 - 5 * nu) / (15 * (1 - nu))), ("S1122", (0, 0, 1, 1), (5 * nu - 1) / (15 * (1 - nu))),
                                 ("S1212", (0, 1, 0, 1), (4 - 5 * nu) / (15 * (1 - nu))), ("S2233", (1, 1, 2, 2), (5 * nu - 1) / (15 * (1 - nu))),
                                 ("S3333", (2, 2, 2, 2), (7 - 5 * nu) / (15 * (1 - nu))), ("S1323", (0, 2, 1, 2), 0.0)):
                ev.append(rel("C16:eshelby-%s[grid quadrature]" % nm, tag, Sg[idx], val, "eq", rtol=GRIDTOL, atol=GRIDTOL))
            ev.append(rel("C16:eshelby-S1111", tag, S[0, 0, 0, 0], (7 - 5 * nu) / (15 * (1 - nu)), "eq", rtol=1e-6))
            ev.append(rel("C16:eshelby-S1122", tag, S[0, 0, 1, 1], (5 * nu - 1) / (15 * (1 - nu)), "eq", rtol=1e-6, atol=1e-9))
            ev.append(rel("C16:eshelby-S1212", tag, S[0, 1, 0, 1], (4 - 5 * nu) / (15 * (1 - nu)), "eq", rtol=1e-6))
            # round trips
            c2 = EF.elasticConstantToC(c11, c12, c44)
            ev.append(rel("C16:rank-conversion-round-trip", tag, float(np.max(np.abs(EF.convert4To2rankTensor(EF.convert2To4rankTensor(c2)) - c2))), 0.0, "eq", atol=1e-3))
            lam = Em * nu / ((1 + nu) * (1 - 2 * nu)); K = Em / (3 * (1 - 2 * nu)); M = lam + 2 * G
            ref = EF.moduliToC(E=Em, nu=nu)
            for nm, kw in (("E,G", dict(E=Em, G=G)), ("E,lam", dict(E=Em, lam=lam)), ("E,K", dict(E=Em, K=K)), ("nu,G", dict(nu=nu, G=G)), ("nu,lam", dict(nu=nu, lam=lam)),
                           ("nu,K", dict(nu=nu, K=K)), ("nu,M", dict(nu=nu, M=M)), ("G,lam", dict(G=G, lam=lam)), ("G,K", dict(G=G, K=K)), ("G,M", dict(G=G, M=M)),
                           ("lam,K", dict(lam=lam, K=K)), ("lam,M", dict(lam=lam, M=M)), ("K,M", dict(K=K, M=M)), ("E,M", dict(E=Em, M=M))):
                got = EF.moduliToC(**kw)
                ev.append(rel("C16:moduli-conversion(%s)" % nm, tag, float(np.max(np.abs(got - ref)) / np.max(np.abs(ref))), 0.0, "eq", atol=1e-8))
        # modulus conversions at the ends of the admissible range: Poisson's ratio 0 (Lame's first parameter 0) and negative (auxetic)
        for nu in (0.0, -0.2, 0.45):
            Em = 150e9; G = Em / (2 * (1 + nu)); tag = "nu=%g" % nu
            lam = Em * nu / ((1 + nu) * (1 - 2 * nu)); K = Em / (3 * (1 - 2 * nu)); M = lam + 2 * G
            want = np.zeros((6, 6))
            want[:3, :3] = lam; want[0, 0] = want[1, 1] = want[2, 2] = lam + 2 * G; want[3, 3] = want[4, 4] = want[5, 5] = G
            for nm, kw in (("E,nu", dict(E=Em, nu=nu)), ("E,G", dict(E=Em, G=G)), ("E,lam", dict(E=Em, lam=lam)), ("E,K", dict(E=Em, K=K)), ("nu,G", dict(nu=nu, G=G)), ("nu,lam", dict(nu=nu, lam=lam)),
                           ("nu,K", dict(nu=nu, K=K)), ("nu,M", dict(nu=nu, M=M)), ("G,lam", dict(G=G, lam=lam)), ("G,K", dict(G=G, K=K)), ("G,M", dict(G=G, M=M)),
                           ("lam,K", dict(lam=lam, K=K)), ("lam,M", dict(lam=lam, M=M)), ("K,M", dict(K=K, M=M)), ("E,M", dict(E=Em, M=M))):
                if nu == 0.0 and nm == "nu,lam":
                    continue                    # both zero: not two independent moduli
                if nu <= 0.0 and nm == "E,M":
                    continue                    # (E, M) has two solutions, one with each sign of nu (coinciding at 0); the code documents none and returns the positive one
                try:
                    got = EF.moduliToC(**kw)
                    dev = float(np.max(np.abs(got - want)) / np.max(np.abs(want)))
                except Exception:  # noqa
                    dev = float("inf")
                ev.append({"e": "rel", "group": "C16:moduli-conversion(%s)" % nm, "name": tag, "c": "eq" if dev <= 1e-8 else "gt", "want": "eq"})
                # the same pair through the StrainEnergy setters (matrix and precipitate): the stiffness stored is that of the moduli given
                for setter, attr in (("setModuli", "unrotated_cMatrix_4th"), ("setModuliPrecipitate", "unrotated_cPrec_4th")):
                    try:
                        se_ = StrainEnergy()
                        getattr(se_, setter)(**kw)
                        got4 = np.asarray(getattr(se_, attr), dtype=float)
                        want4 = EF.convert2To4rankTensor(want)
                        dev4 = float(np.max(np.abs(got4 - want4)) / np.max(np.abs(want4)))
                    except Exception:  # noqa
                        dev4 = float("inf")
                    ev.append({"e": "rel", "group": "C16:moduli-conversion(%s) through %s" % (nm, setter), "name": tag, "c": "eq" if dev4 <= 1e-8 else "gt", "want": "eq"})
        # sphere quadrature: monomials x^a y^b z^c with a + b + c <= stated order
        ev += quadrature_relations()
    except Exception as ex:  # noqa
        ev.append({"e": "exception", "msg": "%s: %s" % (type(ex).__name__, str(ex)[:300])})
    return ev


def sphere_monomial(a, b, c):
    """integral of x^a y^b z^c over the unit sphere surface"""
    if a % 2 or b % 2 or c % 2:
        return 0.0
    g = math.gamma
    return 2 * g((a + 1) / 2) * g((b + 1) / 2) * g((c + 1) / 2) / g((a + b + c + 3) / 2)


def quadrature_relations():
    """Lebedev rules of the stated orders (53 / 83 / 131) integrate every monomial of total degree <= order exactly"""
    ev = []
    from kawin.precipitation.parameters.LebedevNodes import loadPoints
    for order in (53, 83, 131):
        phi, theta, w = (np.asarray(v, dtype=float) for v in loadPoints(order))
        nx, ny, nz = np.sin(theta) * np.cos(phi), np.sin(theta) * np.sin(phi), np.cos(theta)
        ev.append(rel("C16:quadrature-weights-sum-to-one", "order %d" % order, float(np.sum(w)), 1.0, "eq", rtol=1e-11))
        degs = [0, 1, 2, 3, 4, 6, 10, 20, order - 3, order - 1, order]
        for deg in degs:
            for (a, b, c) in {(deg, 0, 0), (0, deg, 0), (0, 0, deg), (deg // 2, deg - deg // 2, 0), (deg // 3, deg // 3, deg - 2 * (deg // 3)),
                              (2 * (deg // 4), 0, deg - 2 * (deg // 4)), (1 if deg else 0, 0, deg - (1 if deg else 0))}:
                got = 4 * math.pi * float(np.sum(w * nx ** a * ny ** b * nz ** c))
                ev.append(rel("C16:quadrature-exact-up-to-order", "order %d x^%d y^%d z^%d" % (order, a, b, c), got, sphere_monomial(a, b, c), "eq", rtol=1e-9, atol=1e-11))
    return ev
