"""Paired PrecipitateModel runs judged by Equiv.tla (C13: equivalent temperature specifications; C11: phase order)."""
import copy
import numpy as np
from . import kwn_drv as K

ATTRS = K.ATTRS


def arr_cmp(a, b, rtol):
    a, b = np.asarray(a, dtype=float), np.asarray(b, dtype=float)
    if a.shape != b.shape:
        return "shape"
    if not (np.all(np.isfinite(a)) and np.all(np.isfinite(b))):
        return "eq" if np.array_equal(a, b, equal_nan=True) else "nan"
    tol = rtol * np.maximum(np.abs(a), np.abs(b))
    if np.all(np.abs(a - b) <= tol):
        return "eq"
    return "lt" if np.sum(a) < np.sum(b) else "gt"


def permute_phase_axis(name, arr, perm):
    """histories with a phase axis (axis 1) are un-permuted"""
    a = np.asarray(arr)
    if name in ("time", "temperature", "composition"):
        return a
    return a[:, perm]


def run_pair(cfgA, cfgB, perm=None, rtol=0.0, allowed=()):
    ev = [{"e": "init", "allowed": list(allowed)}]
    # schedules given as numpy arrays: the very same array objects are handed to both runs (as a user script would)
    shared = {}
    for cfg in (cfgA, cfgB):
        t = cfg.get("temp")
        if t and t[0] in ("array", "function") and cfg.get("np_arrays"):
            key = (tuple(t[1]), tuple(t[2]))
            if key not in shared:
                shared[key] = (np.array(t[1], dtype=np.float64), np.array(t[2], dtype=np.float64), np.array(t[1], dtype=np.float64), np.array(t[2], dtype=np.float64))
            cfg["temp"] = (t[0], shared[key][0], shared[key][1])
    ra, rb = K.run(cfgA), K.run(cfgB)
    for key, (h, k, h0, k0) in shared.items():
        ev.append({"e": "cmp", "name": "schedule-arrays-untouched", "c": "eq" if (np.array_equal(h, h0) and np.array_equal(k, k0)) else "gt"})
    for tag, r in (("A", ra), ("B", rb)):
        if r["error"]:
            ev.append({"e": "exception", "msg": "%s: %s" % (tag, r["error"])})
    if len(ev) > 1:
        return ev, {"steps": 0}
    da, db = ra["model"].pData, rb["model"].pData
    ev.append({"e": "cmp", "name": "rows", "c": "eq" if da.n == db.n else ("lt" if da.n < db.n else "gt")})
    for name in ATTRS:
        a, b = getattr(da, name), getattr(db, name)
        if perm is not None:
            b = permute_phase_axis(name, b, perm)
        if cfgB.get("swap_elements") and not cfgA.get("swap_elements") and name in ("composition", "fconc", "xEqAlpha", "xEqBeta"):
            b = np.asarray(b)[..., ::-1]          # per-element histories: last axis is the solute
        ev.append({"e": "cmp", "name": name, "c": arr_cmp(a, b, rtol)})
    ev.append({"e": "cmp", "name": "isIsothermal", "c": "eq" if ra["model"].temperatureParameters._isIsothermal == rb["model"].temperatureParameters._isIsothermal else "gt"})
    # size distributions
    for p in range(len(ra["model"].phases)):
        q = p if perm is None else perm[p]
        ev.append({"e": "cmp", "name": "PSD[%d]" % p, "c": arr_cmp(ra["model"].PBM[p].PSD, rb["model"].PBM[q].PSD, rtol)})
        ev.append({"e": "cmp", "name": "PSDbounds[%d]" % p, "c": arr_cmp(ra["model"].PBM[p].PSDbounds, rb["model"].PBM[q].PSDbounds, rtol)})
    return ev, {"steps": int(da.n) + int(db.n)}


def H(t): return t / 3600.0


def temperature_pairs():
    ph = dict(name="beta", gamma=0.05)
    base = dict(phases=[ph], D=1e-16, se=1e-5, calls=[(100.0, 0.02)], cap=300)
    out = []
    for it in ("euler", "rk4"):
        for kind, temp in (("array", ("array", [0, H(100.0)], [1000, 1006])), ("function", ("function", [0, H(60.0), H(100.0)], [1000, 995, 1001])),
                           ("const", ("const", 1003)),
                           # instantaneous steps: a break point time given twice (hold, quench, hold; and a step up)
                           ("quench", ("array", [0, H(30.0), H(30.0), H(100.0)], [1004, 1004, 1000, 1000])),
                           ("stepup", ("array", [0, H(30.0), H(30.0), H(100.0)], [1000, 1000, 1004, 1004]))):
            a = dict(base, temp=temp, iter=it, temp_via="setter", tag="temp-%s-%s-setter" % (kind, it))
            b = dict(base, temp=temp, iter=it, temp_via="constructor", tag="temp-%s-%s-constructor" % (kind, it))
            out.append((a, b, "%s/%s: setter vs constructor" % (kind, it)))
            # the parameter object configured through its own setters (built empty, or built with another schedule first)
            if kind in ("array", "function", "const"):
                for via in ("constructor-stepwise", "constructor-reconfigured"):
                    d = dict(base, temp=temp, iter=it, temp_via=via, tag="temp-%s-%s-%s" % (kind, it, via))
                    out.append((a, d, "%s/%s: setter vs parameter object configured step by step (%s)" % (kind, it, via)))
            # the same schedule supplied only after setup() (the model was set up at the constant temperature the schedule starts at)
            c = dict(base, temp=temp, iter=it, temp_via="after-setup", tag="temp-%s-%s-after-setup" % (kind, it))
            out.append((a, c, "%s/%s: schedule set before vs after setup()" % (kind, it)))
            if kind in ("array", "quench"):
                a2, b2 = dict(b, np_arrays=True, tag=b["tag"] + "-np"), dict(a, np_arrays=True, tag=a["tag"] + "-np")
                out.append((a2, b2, "%s/%s: constructor then setter, same numpy arrays" % (kind, it)))
        # break points vs the same schedule as a function
        a = dict(base, temp=("array", [0, H(100.0)], [1000, 1006]), iter=it, tag="temp-array-%s" % it)
        b = dict(base, temp=("function", [0, H(100.0)], [1000, 1006]), iter=it, tag="temp-asfunction-%s" % it)
        out.append((a, b, "array vs function/%s" % it))
    return out


def element_order_pairs():
    """ternary PrecipitateModel runs (scripted backend) with the two solutes listed in both orders: default and no-diffusion precipitates,
    one and two phases, both iterators"""
    ph = dict(name="beta", gamma=0.05)
    g2 = dict(name="gamma", gamma=0.055, xe0=(0.005, 0.004), xb=(0.15, 0.2), w=(0.6, 1.0))
    out = []
    for it in ("euler", "rk4"):
        for label, phases in (("one phase", [ph]), ("one phase, no diffusion in the precipitate", [dict(ph, infinite=False)]),
                              ("two phases, no diffusion in the second", [ph, dict(g2, infinite=False)])):
            a = dict(multi=True, phases=phases, calls=[(0.6, 0.02), (0.4, 0.02)], iter=it, cap=500, tag="elorder-%s-%s" % (label.split(",")[0].replace(" ", ""), it))
            b = dict(a, swap_elements=True, tag=a["tag"] + "-swapped")
            out.append((a, b, "element order/%s/%s" % (label, it)))
    return out


def phase_order_pairs():
    p1 = dict(name="beta", gamma=0.05)
    p2 = dict(name="gamma", gamma=0.055, xe0=0.004, K=1.2e5, xb=0.3, VmB=1.2e-5)
    p3 = dict(name="delta", gamma=0.06, xe0=0.006, K=0.9e5, xb=0.2, VmB=0.9e-5, site="grain boundaries")
    out = []
    # both phases take the aspect ratio of every size class from their own strain energy (calculateAspectRatio): a plate and a needle
    sa = dict(name="beta", gamma=0.05, strainAR=("plate", (6.67e-3, 6.67e-3, 2.86e-2), 57.1e9, 0.33))
    sb = dict(name="gamma", gamma=0.055, xe0=0.004, K=1.2e5, xb=0.3, strainAR=("needle", (2.0e-2, 5.0e-3, 5.0e-3), 57.1e9, 0.33))
    sbase = dict(D=1e-16, calls=[(10.0, 0.02)], iter="euler", cap=300, pbm=(1e-10, 2e-9, 30, 20, 60, True))
    out.append((dict(sbase, phases=[sa, sb], tag="order-strainAR-12"), dict(sbase, phases=[sb, sa], tag="order-strainAR-21"), [1, 0], "2 phases with strain-derived aspect ratios"))
    for it in ("euler", "rk4"):
        base = dict(D=1e-16, calls=[(60.0, 0.02), (60.0, 0.02)], iter=it, cap=400, gb=0.03)
        out.append((dict(base, phases=[p1, p2], tag="order-12-%s" % it), dict(base, phases=[p2, p1], tag="order-21-%s" % it), [1, 0], "2 phases/%s" % it))
        out.append((dict(base, phases=[p1, p2, p3], tag="order-123-%s" % it), dict(base, phases=[p3, p1, p2], tag="order-312-%s" % it), [1, 2, 0], "3 phases/%s" % it))
        # every step-size constraint made binding in turn (the limits are minima over the phases)
        for cname, cons in (("volume", dict(maxVolumeChange=1e-10)), ("rcrit", dict(maxRcritChange=1e-5)), ("nucleation", dict(maxNucleationRateChange=1e-3)),
                            ("psd", dict(maxDissolution=1e-6))):
            out.append((dict(base, phases=[p1, p2], constraints=cons, tag="order-12-%s-%s" % (cname, it)),
                        dict(base, phases=[p2, p1], constraints=cons, tag="order-21-%s-%s" % (cname, it)), [1, 0], "2 phases, %s limit binding/%s" % (cname, it)))
    return out
